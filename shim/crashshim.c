/* LD_PRELOAD library for C09: counts the write-family system calls issued on the LMDB
 * data file (data.mdb) and kills the process with SIGKILL right before the n-th one.
 *
 *   CRASHSHIM_KILL_AT=<n>   kill before the n-th intercepted call (0-based); unset = never
 *   CRASHSHIM_LOG=<path>    append one line per intercepted call: "<n> <name> <bytes>"
 *
 * LMDB is linked statically into the harness but calls libc dynamically, so interposition
 * on the libc symbols sees its commit protocol: pwrite(data pages) -> fdatasync -> pwrite(meta).
 */
#define _GNU_SOURCE
#include <dlfcn.h>
#include <signal.h>
#include <stdio.h>
#include <stdlib.h>
#include <string.h>
#include <sys/types.h>
#include <sys/uio.h>
#include <unistd.h>

static long counter = 0;
static long kill_at = -2;
static const char *log_path = NULL;

static void init(void) {
    if (kill_at != -2) return;
    const char *k = getenv("CRASHSHIM_KILL_AT");
    kill_at = k ? atol(k) : -1;
    log_path = getenv("CRASHSHIM_LOG");
}

static int is_data_file(int fd) {
    char link[64], path[512];
    snprintf(link, sizeof link, "/proc/self/fd/%d", fd);
    ssize_t n = readlink(link, path, sizeof path - 1);
    if (n <= 0) return 0;
    path[n] = 0;
    const char *suffix = "data.mdb";
    size_t ls = strlen(suffix);
    return (size_t)n >= ls && strcmp(path + n - ls, suffix) == 0;
}

static void event(const char *name, int fd, long bytes) {
    init();
    if (!is_data_file(fd)) return;
    long n = counter++;
    if (log_path) {
        static ssize_t (*real_write)(int, const void *, size_t) = NULL;
        if (!real_write) real_write = dlsym(RTLD_NEXT, "write");
        FILE *f = fopen(log_path, "a");
        if (f) {
            fprintf(f, "%ld %s %ld\n", n, name, bytes);
            fclose(f);
        }
    }
    if (kill_at >= 0 && n == kill_at) {
        kill(getpid(), SIGKILL);
        for (;;) pause();
    }
}

ssize_t pwrite(int fd, const void *buf, size_t count, off_t offset) {
    static ssize_t (*real)(int, const void *, size_t, off_t) = NULL;
    if (!real) real = dlsym(RTLD_NEXT, "pwrite");
    event("pwrite", fd, (long)count);
    return real(fd, buf, count, offset);
}

ssize_t pwrite64(int fd, const void *buf, size_t count, off64_t offset) {
    static ssize_t (*real)(int, const void *, size_t, off64_t) = NULL;
    if (!real) real = dlsym(RTLD_NEXT, "pwrite64");
    event("pwrite64", fd, (long)count);
    return real(fd, buf, count, offset);
}

ssize_t pwritev(int fd, const struct iovec *iov, int iovcnt, off_t offset) {
    static ssize_t (*real)(int, const struct iovec *, int, off_t) = NULL;
    if (!real) real = dlsym(RTLD_NEXT, "pwritev");
    event("pwritev", fd, (long)iovcnt);
    return real(fd, iov, iovcnt, offset);
}

ssize_t pwritev64(int fd, const struct iovec *iov, int iovcnt, off64_t offset) {
    static ssize_t (*real)(int, const struct iovec *, int, off64_t) = NULL;
    if (!real) real = dlsym(RTLD_NEXT, "pwritev64");
    event("pwritev64", fd, (long)iovcnt);
    return real(fd, iov, iovcnt, offset);
}

ssize_t write(int fd, const void *buf, size_t count) {
    static ssize_t (*real)(int, const void *, size_t) = NULL;
    if (!real) real = dlsym(RTLD_NEXT, "write");
    event("write", fd, (long)count);
    return real(fd, buf, count);
}

ssize_t writev(int fd, const struct iovec *iov, int iovcnt) {
    static ssize_t (*real)(int, const struct iovec *, int) = NULL;
    if (!real) real = dlsym(RTLD_NEXT, "writev");
    event("writev", fd, (long)iovcnt);
    return real(fd, iov, iovcnt);
}

int fdatasync(int fd) {
    static int (*real)(int) = NULL;
    if (!real) real = dlsym(RTLD_NEXT, "fdatasync");
    event("fdatasync", fd, 0);
    return real(fd);
}

int fsync(int fd) {
    static int (*real)(int) = NULL;
    if (!real) real = dlsym(RTLD_NEXT, "fsync");
    event("fsync", fd, 0);
    return real(fd);
}

int ftruncate(int fd, off_t length) {
    static int (*real)(int, off_t) = NULL;
    if (!real) real = dlsym(RTLD_NEXT, "ftruncate");
    event("ftruncate", fd, (long)length);
    return real(fd, length);
}
