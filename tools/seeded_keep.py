#!/usr/bin/env python3
"""usage: seeded_keep.py <src dir with patch.diff demo.rs README.md> <id> <property> <origin> <needs> <caught_by> [<missed_by>]
Stores a confirmed seeded change under /verif/seeded/<id>/ with its meta.json."""
import json, os, shutil, sys
src, sid, prop, origin, needs, caught = sys.argv[1:7]
missed = sys.argv[7] if len(sys.argv) > 7 else ""
dst = f"/verif/seeded/{sid}"
os.makedirs(dst, exist_ok=True)
shutil.copy(f"{src}/patch.diff", f"{dst}/patch.diff")
shutil.copy(f"{src}/demo.rs", f"{dst}/demo.rs")
if os.path.exists(f"{src}/README.md"):
    shutil.copy(f"{src}/README.md", f"{dst}/README.md")
meta = {
    "id": sid,
    "breaks_property": prop,
    "origin": origin,
    "needs_to_manifest": needs,
    "confirmed": "in a scratch worktree of /repo (tools/seeded_confirm.sh): the patch applies and compiles, the unchanged baseline suite (57 unit + 12 doc tests) passes with it, the demonstration passes without the change and fails with it",
    "checks_run": "tools/seeded_run.sh: git -C /repo apply patch.diff; ./check <property> --tier quick; git -C /repo checkout -- .",
    "caught_by": [c for c in caught.split(",") if c],
    "not_caught_by": [c for c in missed.split(",") if c],
}
json.dump(meta, open(f"{dst}/meta.json", "w"), indent=1)
print("kept", dst)
