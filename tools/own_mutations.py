#!/usr/bin/env python3
"""Own detection demonstrations (DESIGN.md §8): small property-breaking edits, each checked to
compile and to pass the unchanged baseline suite in a scratch worktree, then run against the
checks on /repo and reverted. Usage: own_mutations.py [name ...]"""
import subprocess, sys, os, json

WT = "/tmp/scratch/own-wt"
M = {
 # name: (file, old, new, properties to run)
 "C01-orphan-on-merge": ("src/writer.rs",
   "                    if new_left.mode == NodeMode::Tree {\n                        tmp_nodes.remove(new_left.item);\n                    }\n                    if new_right.mode == NodeMode::Tree {\n                        tmp_nodes.remove(new_right.item);\n                    }\n\n                    tmp_nodes.put(\n                        current_node,",
   "                    if new_right.mode == NodeMode::Tree {\n                        tmp_nodes.remove(new_right.item);\n                    }\n\n                    tmp_nodes.put(\n                        current_node,",
   ["C01"]),
 "C02-no-dedup": ("src/reader.rs", "        nns.sort_unstable();\n        nns.dedup();\n", "        nns.sort_unstable();\n", ["C02", "C03"]),
 "C04-flip-side-incremental": ("src/writer.rs",
   "                                match D::side(&normal, &node, rng) {\n                                    Side::Left => left_ids.insert(leaf),\n                                    Side::Right => right_ids.insert(leaf),\n                                };",
   "                                match D::side(&normal, &node, rng) {\n                                    Side::Left => right_ids.insert(leaf),\n                                    Side::Right => left_ids.insert(leaf),\n                                };",
   ["C04", "C01", "C02"]),
 "C06-append-no-mark": ("src/writer.rs",
   "        // We cannot append here because the items appear after the updated keys\n        self.database.remap_data_type::<Unit>().put(wtxn, &Key::updated(self.index, item), &())?;\n",
   "",
   ["C06", "C19"]),
 "C07-delete-range-next-index": ("src/writer.rs",
   ".delete_range(wtxn, &(Key::tree(self.index, 0)..=Key::tree(self.index, ItemId::MAX)))?;",
   ".delete_range(wtxn, &(Key::tree(self.index, 0)..Key::tree(self.index + 1, 0)))?;",
   ["C07", "C18"]),
 "C11-avx-remainder": ("src/spaces/simple_avx.rs",
   "    for i in 0..n - m {\n        let a = read_unaligned(ptr1.add(i));\n        let b = read_unaligned(ptr2.add(i));\n        result += a * b;\n    }",
   "    for i in 0..(n - m).saturating_sub(1) {\n        let a = read_unaligned(ptr1.add(i));\n        let b = read_unaligned(ptr2.add(i));\n        result += a * b;\n    }",
   ["C11"]),
 "C11-avx-accumulator": ("src/spaces/simple_avx.rs",
   "        sum256_4 = _mm256_fmadd_ps(sub256_4, sub256_4, sum256_4);",
   "        sum256_4 = _mm256_fmadd_ps(sub256_4, sub256_3, sum256_4);",
   ["C11"]),
 "C12-manhattan-factor": ("src/distance/binary_quantized_manhattan.rs", ".sum::<u32>() * 2;", ".sum::<u32>() * 4;", ["C12"]),
 "C13-cursor-read-then-bump": ("src/parallel.rs",
   "            let current = self.select_in_bitmap.fetch_add(1, Ordering::Relaxed);",
   "            let current = self.select_in_bitmap.load(Ordering::Relaxed);\n            self.select_in_bitmap.store(current + 1, Ordering::Relaxed);",
   ["C13"]),
 "C15-ignore-requested-trees": ("src/writer.rs",
   "        Some(n) => n as u64,\n        // In the case we never made any tree",
   "        Some(n) if roots.is_empty() => n as u64,\n        Some(_) => roots.len() as u64,\n        // In the case we never made any tree",
   ["C15"]),
 "C15-fit-strict": ("src/writer.rs", "        n <= max_in_descendant\n", "        n < max_in_descendant\n", ["C15", "C01"]),
 "C16-swap-tags": ("src/node.rs", "const DESCENDANTS_TAG: u8 = 1;\nconst SPLIT_PLANE_NORMAL_TAG: u8 = 2;", "const DESCENDANTS_TAG: u8 = 2;\nconst SPLIT_PLANE_NORMAL_TAG: u8 = 1;", ["C16", "C17"]),
 "C17-right-child-not-retagged": ("src/upgrade.rs",
   "                    split.right.mode = match right_old_mode {\n                        OldNodeMode::Item => NodeMode::Item,",
   "                    split.right.mode = match right_old_mode {\n                        OldNodeMode::Item => NodeMode::Metadata,",
   ["C17"]),
 "C18-keep-forest": ("src/writer.rs",
   "        if TypeId::of::<ND>() != TypeId::of::<D>() {\n            clear_tree_nodes(wtxn, self.database, self.index)?;\n",
   "        if TypeId::of::<ND>() != TypeId::of::<D>() {\n            self.database.delete(wtxn, &Key::metadata(self.index))?;\n",
   ["C18"]),
 "C19-check-after-put": ("src/writer.rs",
   "    pub fn add_item(&self, wtxn: &mut RwTxn, item: ItemId, vector: &[f32]) -> Result<()> {\n        if vector.len() != self.dimensions {\n            return Err(Error::InvalidVecDimension {\n                expected: self.dimensions,\n                received: vector.len(),\n            });\n        }\n\n        let vector = UnalignedVector::from_slice(vector);\n        let leaf = Leaf { header: D::new_header(&vector), vector };\n        self.database.put(wtxn, &Key::item(self.index, item), &Node::Leaf(leaf))?;\n        self.database.remap_data_type::<Unit>().put(wtxn, &Key::updated(self.index, item), &())?;\n",
   "    pub fn add_item(&self, wtxn: &mut RwTxn, item: ItemId, vector: &[f32]) -> Result<()> {\n        self.database.remap_data_type::<Unit>().put(wtxn, &Key::updated(self.index, item), &())?;\n        if vector.len() != self.dimensions {\n            return Err(Error::InvalidVecDimension {\n                expected: self.dimensions,\n                received: vector.len(),\n            });\n        }\n\n        let vector = UnalignedVector::from_slice(vector);\n        let leaf = Leaf { header: D::new_header(&vector), vector };\n        self.database.put(wtxn, &Key::item(self.index, item), &Node::Leaf(leaf))?;\n",
   ["C19", "C06"]),
 "C20-no-random-fallback": ("src/writer.rs",
   "            if split_imbalance(children_left.len() as u64, children_right.len() as u64) > 0.99 {",
   "            if false && split_imbalance(children_left.len() as u64, children_right.len() as u64) > 0.99 {",
   ["C20"]),
}

def sh(cmd, **kw):
    return subprocess.run(cmd, shell=True, capture_output=True, text=True, **kw)

def main():
    names = sys.argv[1:] or list(M)
    if not os.path.isdir(WT):
        sh(f"git -C /repo worktree add --detach {WT} HEAD && cp /repo/Cargo.lock {WT}/")
    results = {}
    for name in names:
        f, old, new, props = M[name]
        sh(f"git -C {WT} checkout -q -- .")
        src = open(f"{WT}/{f}").read()
        if old not in src:
            print(name, "PATTERN NOT FOUND"); continue
        open(f"{WT}/{f}", "w").write(src.replace(old, new, 1))
        diff = sh(f"git -C {WT} diff").stdout
        open(f"/verif/seeded/own/{name}.diff", "w").write(diff)
        t = sh(f"cd {WT} && CARGO_NET_OFFLINE=true CARGO_TARGET_DIR={WT}/target cargo test --offline 2>&1 | grep -E '^test result|error(\\[|:)' | head -4")
        ok = t.stdout.count("test result: ok") == 2 and "FAILED" not in t.stdout and "error" not in t.stdout
        sh(f"git -C {WT} checkout -q -- .")
        if not ok:
            print(name, "BASELINE FAILS or does not compile:", t.stdout.replace("\n", " | ")[:300])
            results[name] = {"baseline": "fails", "checks": {}}
            os.remove(f"/verif/seeded/own/{name}.diff")
            continue
        r = sh(f"/verif/tools/seeded_run.sh /verif/seeded/own/{name}.diff quick {' '.join(props)}")
        verdicts = {}
        for line in r.stdout.splitlines():
            parts = line.split()
            if len(parts) >= 2 and parts[0].startswith("C"):
                verdicts[parts[0]] = parts[1] + " :: " + line.split("::", 1)[-1].strip()[:200]
        results[name] = {"baseline": "passes", "checks": verdicts}
        print(name, "baseline passes;", {k: v.split(" :: ")[0] for k, v in verdicts.items()})
        sys.stdout.flush()
    json.dump(results, open("/verif/seeded/own/results.json", "w"), indent=1)

main()
