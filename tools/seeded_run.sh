#!/bin/sh
# usage: seeded_run.sh <patch.diff> <tier> <property> [<property>...]
# Applies a seeded change to /repo, runs the given checks, and undoes the change straight afterwards.
patch=$1; tier=$2; shift 2
cd /verif || exit 2
if [ -n "$(git -C /repo status --porcelain --untracked-files=no)" ]; then echo "/repo has uncommitted changes: refusing"; exit 2; fi
git -C /repo apply "$patch" || { echo "patch does not apply to /repo"; exit 2; }
# evidence and replay artefacts of runs on a changed tree never land in /verif
mkdir -p /tmp/scratch/seeded-out
export VERIF_EVIDENCE_DIR=/tmp/scratch/seeded-out/evidence VERIF_REPLAYS_DIR=/tmp/scratch/seeded-out/replays
trap 'git -C /repo checkout -- . ; rm -rf /tmp/scratch/seeded-out' EXIT INT TERM
for p in "$@"; do
    start=$(date +%s)
    out=$(./check $p --tier $tier 2>/dev/null | grep -E "^(OK|DETAIL|KNOWN-FINDING|MACHINERY-ERROR)" | cut -c1-330 | head -4)
    end=$(date +%s)
    case "$out" in
        *DETAIL*) verdict=CAUGHT;;
        *MACHINERY-ERROR*) verdict=MACHINERY;;
        *) verdict=missed;;
    esac
    echo "$p $verdict $((end-start))s :: $(echo "$out" | head -2 | tr '\n' ' ')"
done
