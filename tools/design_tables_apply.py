#!/usr/bin/env python3
"""Regenerates the two generated tables of DESIGN.md in place (the seeded-change table of §8 and the
measured quick-tier table of §10) from tools/design_tables.py."""
import subprocess, re
out = subprocess.run(["python3", "/verif/tools/design_tables.py"], capture_output=True, text=True, check=True).stdout
t1, t2 = out.strip().split("\n\n")
s = open("/verif/DESIGN.md").read()
def repl(s, header, table):
    i = s.index(header)
    j = s.find("\n\n", i)
    if j < 0:
        j = len(s)
    return s[:i] + table.strip() + s[j:]
s = repl(s, "| id | breaks | origin |", t1)
s = repl(s, "| id | level | quick: what was covered (measured) |", t2)
open("/verif/DESIGN.md", "w").write(s)
print("tables regenerated")
