#!/bin/sh
# usage: run_some.sh <tier> <property>...   — like run_all.sh for a subset
tier=$1; shift
cd "$(dirname "$0")/.." || exit 2
./check build || exit 2
for p in "$@"; do
    start=$(date +%s)
    out=$(./check $p --tier $tier 2>/dev/null | grep -E "^(OK|VIOLATION|KNOWN-FINDING|MACHINERY-ERROR|DETAIL)" | cut -c1-260 | tr '\n' ';')
    end=$(date +%s)
    echo "$p $((end-start))s $out"
done
