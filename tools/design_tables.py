#!/usr/bin/env python3
"""Prints the markdown tables of DESIGN.md §8 (seeded changes) and §10 (measured bounds) from
/verif/seeded/*/meta.json, /verif/seeded/own/results.json and /verif/evidence/*.json."""
import json, glob, os
print("| id | breaks | origin | what it needs to manifest | caught by | note |")
print("|---|---|---|---|---|---|")
for d in sorted(glob.glob("/verif/seeded/C*")):
    m = json.load(open(d + "/meta.json"))
    note = "; ".join(m.get("not_caught_by", []))
    if m.get("retired"):
        note = (note + "; " if note else "") + "RETIRED: " + m["retired"]
    o = m.get("origin", ""); origin = "sub-agent, round 7" if "seventh round" in o else "sub-agent, round 6" if "sixth round" in o else "sub-agent, round 5" if "fifth round" in o else "sub-agent, round 4" if "fourth round" in o else "sub-agent, round 3" if "third round" in o else ("sub-agent, round 2" if "second round" in o else "sub-agent, round 1")
    print(f"| {m['id']} | {m['breaks_property']} | {origin} | {m['needs_to_manifest']} | {', '.join(m['caught_by'])} | {note} |")
own = json.load(open("/verif/seeded/own/results.json")) if os.path.exists("/verif/seeded/own/results.json") else {}
for name, r in sorted(own.items()):
    if r["baseline"] != "passes":
        continue
    caught = [k for k, v in r["checks"].items() if v.startswith("CAUGHT")]
    missed = [k for k, v in r["checks"].items() if not v.startswith("CAUGHT")]
    print(f"| own/{name} | {name[:3]} | own (planned in the design) | see seeded/own/{name}.diff | {', '.join(caught)} | {('not by ' + ', '.join(missed)) if missed else ''} |")
print()
print("| id | level | quick: what was covered (measured) | wall |")
print("|---|---|---|---|")
for f in sorted(glob.glob("/verif/evidence/C*.json")):
    e = json.load(open(f)); c = e["coverage"]
    if "states" in c:
        size = f"{c['states']} states, {c['transitions']} transitions"
    else:
        size = f"{c['evaluations']} evaluations, {c['distinct_nontrivial']} non-trivial"
    print(f"| {e['property_id']} | {e['level']} | {size}, exhaustive={c.get('exhaustive')} | {e['wall_s']} s |")
