#!/bin/sh
# runs every quick (or thorough) check sequentially and prints one line per property
tier=${1:-quick}
cd "$(dirname "$0")/.." || exit 2
./check build || exit 2
for p in C01 C02 C03 C04 C05 C06 C07 C08 C09 C10 C11 C12 C13 C14 C15 C16 C17 C18 C19 C20; do
    start=$(date +%s)
    out=$(./check $p --tier $tier 2>/dev/null | grep -E "^(OK|VIOLATION|KNOWN-FINDING|MACHINERY-ERROR)" | cut -c1-160 | tr '\n' ';')
    code=$?
    end=$(date +%s)
    echo "$p $((end-start))s $out"
done
