#!/bin/sh
# usage: seeded_confirm.sh <worktree> <dir-with-patch.diff-and-demo.rs> [cargo features]
# Confirms, in a scratch worktree of /repo (never /repo itself), that a seeded change
#  (1) applies and compiles, (2) passes the unchanged baseline suite, and that its demonstration
#  (3) passes without the change and (4) fails with it. Leaves the worktree pristine.
wt=$1; src=$2; feat=${3:-assert-reader-validity}
export CARGO_NET_OFFLINE=true CARGO_TARGET_DIR=$wt/target
cd "$wt" || exit 2
git checkout -q -- . ; rm -f tests/seeded_demo.rs
mkdir -p tests && cp "$src/demo.rs" tests/seeded_demo.rs
echo "== demo on the pristine tree (must pass)"
if cargo test --offline --features "$feat" --test seeded_demo >"$src/confirm_pristine.log" 2>&1; then echo "pristine: demo PASSES"; p1=ok; else echo "pristine: demo FAILS (bad demo)"; p1=bad; fi
echo "== apply the change"
if ! git apply "$src/patch.diff"; then echo "patch does not apply"; git checkout -q -- .; rm -f tests/seeded_demo.rs; exit 1; fi
rm -f tests/seeded_demo.rs
echo "== baseline suite with the change (must pass)"
if cargo test --offline >"$src/confirm_baseline.log" 2>&1; then echo "baseline: PASSES ($(grep -c '^test .* ok$' "$src/confirm_baseline.log") tests ok)"; p2=ok; else echo "baseline: FAILS"; grep -E "FAILED|failed|^error" "$src/confirm_baseline.log" | head -5; p2=bad; fi
cp "$src/demo.rs" tests/seeded_demo.rs
echo "== demo with the change (must fail)"
if cargo test --offline --features "$feat" --test seeded_demo >"$src/confirm_mutated.log" 2>&1; then echo "mutated: demo PASSES (change not demonstrated)"; p3=bad; else echo "mutated: demo FAILS"; p3=ok; fi
git checkout -q -- . ; rm -f tests/seeded_demo.rs
[ "$p1$p2$p3" = "okokok" ] && { echo "CONFIRMED"; exit 0; }
echo "NOT CONFIRMED ($p1 $p2 $p3)"; exit 1
