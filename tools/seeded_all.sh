#!/bin/sh
# Regression of the detection demonstrations: every seeded change is applied to /repo in turn,
# the quick check of the property it breaks is run, and the change is undone.
# Output: one line per change; exit 1 if any is not caught.
cd /verif || exit 2
fail=0
for d in seeded/C*/ ; do
    id=$(basename "$d")
    prop=$(python3 -c "import json;print(json.load(open('$d/meta.json'))['breaks_property'])")
    retired=$(python3 -c "import json;print(json.load(open('$d/meta.json')).get('retired',''))")
    if [ -n "$retired" ]; then echo "$id -> RETIRED ($retired)" | cut -c1-230; continue; fi
    line=$(tools/seeded_run.sh "/verif/$d/patch.diff" quick "$prop" | head -1 | cut -c1-230)
    # a change recorded as not caught (meta.json: documented_not_caught) is reported as such and does not fail the regression
    known=$(python3 -c "import json;print(json.load(open('$d/meta.json')).get('documented_not_caught',''))")
    case "$line" in
        *CAUGHT*) echo "$id -> $line";;
        *) if [ -n "$known" ]; then echo "$id -> NOT-CAUGHT (documented: $known) :: $line"; else echo "$id -> $line"; fail=1; fi;;
    esac
done
for f in seeded/own/*.diff; do
    name=$(basename "$f" .diff)
    prop=$(echo "$name" | cut -c1-3)
    line=$(tools/seeded_run.sh "/verif/$f" quick "$prop" | head -1 | cut -c1-230)
    echo "own/$name -> $line"
    case "$line" in *CAUGHT*) ;; *) fail=1;; esac
done
exit $fail
