#!/usr/bin/env python3
"""Generates /verif/MANIFEST.json from the table below (one entry per property)."""
import json, sys

CLAIMED = {
    # id: (level category, engine, technique, level text, level note, design ref)
    "C01": ("model_checking", "E1-history-explorer",
            "explicit-state BFS over operation histories, transitions executed on the real Writer, exact-state dedup, independent decoder + structure oracle",
            "Every history (item-op^{<=K} build)^{<=R} over a 5-6 id universe, every build option of the menu and every listed metric is executed on the real implementation; after every build the raw LMDB dump is decoded by an independent decoder and the structure oracle S is evaluated. Exhaustive within the stated bounds; a cap, if hit, is reported.",
            "Trusted: LMDB/heed, roaring serialisation, rayon; builds run on one rayon thread (schedules are C13's subject); bounds: ids, vectors, options, seeds and rounds of the alphabet.",
            "DESIGN.md §3 C01"),
    "C02": ("model_checking", "E1-history-explorer",
            "explicit-state BFS over operation histories on the real code; every built state queried exhaustively and compared with an f64 brute-force reference",
            "Every built state of the bounded history exploration (all 7 metrics) is queried with an unlimited budget by every stored id and every lattice vector for a menu of counts; each answer must be the exact top-k of the reference model.",
            "Trusted: LMDB/heed, roaring, rayon. Small-integer lattice vectors (distance accuracy for other values is C11). States with an invalid forest are left to C01.",
            "DESIGN.md §3 C02"),
    "C03": ("model_checking", "E1-history-explorer",
            "explicit-state BFS over histories + exhaustive enumeration of the query-option lattice on every built state",
            "On every built state of a reduced history exploration the full product count x search_k x oversampling x candidates x query (about 9000 cells per state) is evaluated on one read transaction against the reference model, including cross-cell laws (budget equivalence, monotonicity, saturation = exact, by_item = by_vector).",
            "Trusted: LMDB/heed, roaring, rayon. Bounds: the option menus listed in the evidence; 4-5 ids.",
            "DESIGN.md §3 C03"),
    "C04": ("model_checking", "E1-history-explorer",
            "explicit-state BFS over histories; margins recomputed in f64 from the independently decoded dump for every (tree, split, item)",
            "Every built state (all 7 metrics, incremental rounds included): for every tree, split and stored item below it the side is compared with the sign of the f64 margin when that sign is certain; plus the budget-1 self lookup for items separated by clean planes.",
            "Trusted: LMDB/heed, roaring, rayon. Margins whose sign an f32 evaluation could get wrong are not judged (counted in the evidence).",
            "DESIGN.md §3 C04"),
    "C15": ("model_checking", "E1-history-explorer",
            "explicit-state BFS over histories that change the requested tree count between rounds; option oracle on every build transition",
            "Every build transition of the bounded exploration (dimensions 1-3, explicit/automatic tree counts changing between rounds, several capacities): reader-visible tree count, non-empty default-budget search, bucket capacity bound when the capacity was constant.",
            "Trusted: LMDB/heed, roaring, rayon.",
            "DESIGN.md §3 C15"),
    "C05": ("model_checking", "E1-transaction-explorer",
            "explicit-state BFS over histories with real LMDB transactions (each transition replays its history from an empty environment), observation against a BTreeMap model after every action",
            "All histories up to the stated depth over add/append/overwrite/delete/clear/build/commit/abort on two indexes with a value-rich vector alphabet (NaN payloads, -0.0, subnormals, infinities at word boundaries): after every action the whole read API is compared with the model, in the write transaction and from a fresh read transaction after commit.",
            "Trusted: LMDB/heed transactions, roaring, rayon. Bounds: 3 ids, 2-6 vectors, depth 4-6.",
            "DESIGN.md §3 C05"),
    "C06": ("model_checking", "E1-transaction-explorer",
            "explicit-state BFS over histories with real commits/aborts; open / need_build verdicts compared with a (built, stale) model after every action",
            "All histories up to depth 6-7 over every mutator kind (including rejected and no-op calls, a cancelled build, commit, abort) on two indexes: Reader::open and need_build must follow the model after every single action, in-transaction and from a fresh read transaction.",
            "Trusted: LMDB/heed transactions, roaring, rayon.",
            "DESIGN.md §3 C06"),
    "C07": ("model_checking", "E1-transaction-explorer",
            "explicit-state BFS over all interleavings of operations on index pairs/triples at the u16 boundaries; byte comparison of the other indexes' raw sub-dumps around every action",
            "Every interleaving (depth 5) of add/append/delete/clear/build/metric-change on index pairs drawn from {0,1,255,256,257,65534,65535} with ids at the u32 edges; after each action the raw dump restricted to every other index must be byte-identical.",
            "Trusted: LMDB/heed, roaring, rayon.",
            "DESIGN.md §3 C07"),
    "C19": ("model_checking", "E1-transaction-explorer",
            "explicit-state BFS over histories; at every state an enumerated battery of must-be-rejected calls, each in a nested transaction, with error value and raw-dump comparison",
            "At every state of a depth-5/6 exploration on two indexes: wrong-length add/append/search, appends around the maximum key of the whole database, deletes of absent ids; exact error values, byte-identical dump after each rejected call, accepted append = add.",
            "Trusted: LMDB/heed (nested transactions), roaring, rayon.",
            "DESIGN.md §3 C19"),
    "C11": ("exploration", "E5-shape-enumerator",
            "bounded-exhaustive enumeration of input shapes (length x byte offsets x kernel x one-hot position x value alphabet, plus dense families) against an f64 reference with a summation-order-independent tolerance",
            "For every length 1..=300, every pair of byte offsets and every kernel the host can run (dispatch, scalar, SSE, AVX through the hook): every one-hot position with each value pair of the alphabet, plus dense families (cancellation, huge, tiny, self). Decides that every lane of every length contributes exactly once and that the reported Euclidean / Manhattan / Cosine / DotProduct values equal the definitions; end-to-end slice through QueryBuilder.",
            "A pure kernel has no state graph: the family applies here as exhaustive enumeration of a finite shape space (exhaustive: true over that space). Values outside the alphabet are not covered. Trusted: the host's SIMD units.",
            "DESIGN.md §3 C11"),
    "C12": ("exploration", "E5-shape-enumerator",
            "exhaustive enumeration of all sign patterns for small dimensions (two representation maps incl. -0.0, NaNs, infinities) and of structured families up to dimension 300; all pattern pairs for d <= 6/8",
            "All 2^d sign patterns for d <= 12 (16 thorough) through from_slice / from_vec / to_vec / iter / len; all pairs for d <= 6 (8 thorough) and family x family beyond: distances must be the stated functions of the Hamming count only, symmetric, zero on equal patterns and strictly ordered by h; end-to-end through Writer / item_vector / queries at word-boundary dimensions.",
            "Exhaustive over the stated pattern space; larger dimensions are covered by families, not all patterns.",
            "DESIGN.md §3 C12"),
    "C13": ("model_checking", "E2-cooperative-scheduler",
            "controlled-scheduler exploration of the real code: stateful DFS over all interleavings of the atomic steps of concurrent ConcurrentNodeIds::next calls; stateless DFS over all interleavings of next() calls of the per-tree tasks of a real build",
            "L1: 2-3 real threads x 1-3 calls x all 32 used-sets over {0..4}: every interleaving of the atomic operations (yield before each, through the cfg-guarded atomics shim), with state caching on (generator state, per-thread progress and observed values, ids handed out) and thread symmetry. L2: real incremental builds in pools of 2-3 threads, all interleavings of the tasks' next() calls, S after each.",
            "Sequential consistency (argument for Relaxed in DESIGN.md C13). L2 yields only at next() and task boundaries. Uncontrolled multi-thread builds are added as sampled, supplementary evidence and labelled so.",
            "DESIGN.md §3 C13"),
    "C16": ("model_checking", "E6-format-model",
            "independent format model (decoder/encoder of Appendix A) checked against the implementation: exhaustive key lattice, every explored state decoded and compared with the API, golden dumps of the reference commit replayed through the current code",
            "The model is a second implementation of the on-disk layout. Conformance in both directions: every key of the boundary lattice and every pair for ordering; every state the history explorer produces must decode under the model and agree with the public API; dumps written by the pinned reference commit for all 7 metrics must open, match the recorded items and query answers, satisfy S, and accept an incremental update.",
            "Trusted: LMDB/heed, roaring's portable serialisation. Fixtures are data generated once by a7b9462 (see /verif/fixtures/README.md).",
            "DESIGN.md §3 C16"),
    "C17": ("model_checking", "E6-format-model",
            "every explored Cosine state is rewritten to the v0.4 layout by an independent transformation and upgraded by the real code; byte-for-byte comparison with the current-layout dump",
            "Every state of a Cosine history exploration (built or with pending updates, two indexes) is inverted to the v0.4 layout and run through cosine_from_0_4_to_0_5 (two environments and one environment, both old metric names); the result must be the original dump minus version records; from_0_5_to_0_6 must add exactly the version records.",
            "Trusted: LMDB/heed, roaring. The v0.4 layout is taken from the upgrade module's own description of it (no v0.4 binary exists in the sandbox).",
            "DESIGN.md §3 C17"),
    "C18": ("model_checking", "E1-transaction-explorer",
            "explicit-state BFS over histories containing prepare_changing_distance to each of the 7 metrics, between two built neighbour indexes; store, staleness, isolation, structure and exact-search oracles after every action",
            "All histories (depth 5-6) of adds, overwrites, deletes, builds and metric changes (all 49 ordered pairs, chains included) on an index between two built neighbours; after each action the items/vectors (API and raw bytes), the absence of the old forest, need_build/open verdicts, neighbour bytes and, after rebuilds, S and exact search under the new metric are checked.",
            "Trusted: LMDB/heed, roaring, rayon.",
            "DESIGN.md §3 C18"),
}

NOT_YET = "check not built yet in this session; see DESIGN.md §3 for the planned exploration"

ALL = ["C%02d" % i for i in range(1, 21)]

def main():
    checks = []
    for pid in ALL:
        if pid not in CLAIMED:
            continue
        cat, engine, technique, text, note, ref = CLAIMED[pid]
        checks.append({
            "property_id": pid,
            "quick_cmd": f"./check {pid} --tier quick",
            "thorough_cmd": f"./check {pid} --tier thorough",
            "evidence_file": f"/verif/evidence/{pid}.json",
            "replay_cmd_template": "./check replay {path}",
            "engine": engine,
            "level_claimed": {"category": cat, "text": text, "design_ref": ref},
            "level_note": note,
            "technique": technique,
        })
    manifest = {
        "version": 1,
        "setup_cmd": "./check build",
        "hooks": {
            "guard": "arroy_verif",
            "enable": "RUSTFLAGS=\"--cfg arroy_verif\" (set by ./check; the harness crate depends on /repo by path, so /repo's working tree is rebuilt on every check)",
            "baseline_off_cmd": "cd /repo && cargo test --workspace --no-fail-fast --offline",
            "source_commits": json.load(open("/verif/tools/hook_commits.json")),
            "add_only": True,
        },
        "engines": [
            {"name": "E1-history-explorer", "path": "/verif/harness/src/explore.rs",
             "serves_properties": [p for p in ALL if p in CLAIMED and CLAIMED[p][1] == "E1-history-explorer"],
             "kind_free_text": "explicit-state breadth-first search; the transition function is the real arroy API executed in forked workers on private LMDB environments; states deduplicated on the exact raw dump + reference model"},
            {"name": "E1-transaction-explorer", "path": "/verif/harness/src/txnsys.rs",
             "serves_properties": [p for p in ALL if p in CLAIMED and CLAIMED[p][1] == "E1-transaction-explorer"],
             "kind_free_text": "the same breadth-first explorer over histories with real begin/commit/abort; every transition replays its whole history from an empty environment"},
            {"name": "E2-cooperative-scheduler", "path": "/verif/harness/src/sched.rs",
             "serves_properties": [p for p in ALL if p in CLAIMED and CLAIMED[p][1] == "E2-cooperative-scheduler"],
             "kind_free_text": "token-passing scheduler over real OS threads running the real code; yield points at the hooked atomics / callbacks / API boundaries; depth-first enumeration of schedules by re-execution, optionally with state caching"},
            {"name": "E5-shape-enumerator", "path": "/verif/harness/src/props/kernel_props.rs",
             "serves_properties": [p for p in ALL if p in CLAIMED and CLAIMED[p][1] == "E5-shape-enumerator"],
             "kind_free_text": "exhaustive enumeration of input shapes of the pure kernels and codecs against f64 / integer references"},
            {"name": "E6-format-model", "path": "/verif/harness/src/layout.rs",
             "serves_properties": [p for p in ALL if p in CLAIMED and CLAIMED[p][1] == "E6-format-model"],
             "kind_free_text": "independent model of the on-disk layout (current and v0.4) with conformance checks against the implementation on every explored state and on golden dumps"},
        ],
        "checks": checks,
        "notes": "Exit codes: 0 held, 1 VIOLATION, 2 machinery error (no verdict). Known findings: /verif/known_findings.jsonl.",
        "not_applicable": [{"property_id": p, "reason": NOT_YET} for p in ALL if p not in CLAIMED],
    }
    json.dump(manifest, open("/verif/MANIFEST.json", "w"), indent=1)
    print("wrote MANIFEST.json with", len(checks), "checks")

if __name__ == "__main__":
    main()
