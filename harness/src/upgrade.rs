//! C17 — upgrading an old database preserves its whole content.
//! Every explored Cosine state is transformed to the v0.4 layout by `layout::to_v04`
//! (an inversion of the layout change written independently of arroy) and pushed through
//! `cosine_from_0_4_to_0_5`, between two environments and inside one environment.

use std::cell::RefCell;

use crate::common::{arroy_db, catch, Kv, Metric, Scratch};
use crate::explore::Worker;
use crate::hist::{HState, HistCfg};
use crate::layout::{encode_key, parse_key, to_v04, KIND_METADATA};
use crate::oracle::Fail;
use crate::txnsys::diff_summary;

thread_local! {
    static SECOND_ENV: RefCell<Option<Scratch>> = const { RefCell::new(None) };
}

/// The index numbers the content is duplicated under (several indexes in one database): a
/// neighbour and both ends of the u16 range.
fn twins(index: u16) -> Vec<u16> {
    let mut t = vec![index.wrapping_add(300), u16::MAX, 0];
    t.retain(|x| *x != index);
    t.dedup();
    t
}

fn with_twins(kv: &Kv, twins: &[u16]) -> Kv {
    let mut out = kv.clone();
    for twin in twins {
        for (k, v) in kv {
            let mut k2 = k.clone();
            k2[0..2].copy_from_slice(&twin.to_be_bytes());
            out.push((k2, v.clone()));
        }
    }
    out.sort();
    out
}

fn without_versions(kv: &Kv) -> Kv {
    kv.iter()
        .filter(|(k, _)| parse_key(k).map_or(true, |p| !(p.kind == KIND_METADATA && p.id == 1)))
        .cloned()
        .collect()
}

pub fn check_state(cfg: &HistCfg, st: &HState, built: bool, w: &mut Worker) -> Result<(), Fail> {
    assert_eq!(cfg.metric, Metric::Cosine, "the 0.4 -> 0.5 upgrade exists for cosine only");
    let current = with_twins(&st.kv, &twins(cfg.index));
    let expected = without_versions(&current);
    SECOND_ENV.with(|s| {
        if s.borrow().is_none() {
            *s.borrow_mut() = Some(Scratch::new("upg"));
        }
    });
    for old_name in ["angular", "cosine"] {
        let old = to_v04(&current, old_name).map_err(|e| ("U/model".to_string(), e))?;
        // (1) between two environments
        let got = SECOND_ENV.with(|s| -> Result<Kv, Fail> {
            let s = s.borrow();
            let b = s.as_ref().unwrap();
            let a = &w.scratch;
            let mut wa = a.env.write_txn().unwrap();
            a.load(&mut wa, &old);
            wa.commit().unwrap();
            let mut wb = b.env.write_txn().unwrap();
            b.db.clear(&mut wb).unwrap();
            // something stale in the target: the upgrade must start from a clean database
            b.db.put(&mut wb, &encode_key(9, 3, 9), b"stale").unwrap();
            wb.commit().unwrap();
            let ra = a.env.read_txn().unwrap();
            let mut wb = b.env.write_txn().unwrap();
            let r = catch(|| {
                arroy::upgrade::cosine_from_0_4_to_0_5(
                    &ra,
                    arroy_db::<arroy::distances::Cosine>(a.db),
                    &mut wb,
                    arroy_db::<arroy::distances::Cosine>(b.db),
                )
            });
            match r {
                Ok(Ok(())) => {}
                Ok(Err(e)) => return Err(("U/upgrade-failed".into(), format!("cosine_from_0_4_to_0_5 ({old_name}): {e}"))),
                Err(p) => return Err((format!("U/upgrade-panicked:{}", p.site()), format!("{}: {}", p.location, p.message))),
            }
            let got = b.dump(&wb);
            wb.commit().unwrap();
            Ok(got)
        })?;
        w.count("upgrades_0_4_to_0_5", 1);
        if got != expected {
            return Err((
                "U/content".into(),
                format!("upgrading (old name {old_name:?}, two environments) does not give the current layout of the same content: {}", diff_summary(&expected, &got)),
            ));
        }
        // (2) inside one environment, the read transaction opened first
        {
            let a = &w.scratch;
            let ra = a.env.read_txn().unwrap();
            let mut wa = a.env.write_txn().unwrap();
            let r = catch(|| {
                arroy::upgrade::cosine_from_0_4_to_0_5(
                    &ra,
                    arroy_db::<arroy::distances::Cosine>(a.db),
                    &mut wa,
                    arroy_db::<arroy::distances::Cosine>(a.db),
                )
            });
            match r {
                Ok(Ok(())) => {}
                Ok(Err(e)) => return Err(("U/upgrade-failed".into(), format!("cosine_from_0_4_to_0_5 ({old_name}, one environment): {e}"))),
                Err(p) => return Err((format!("U/upgrade-panicked:{}", p.site()), format!("{}: {}", p.location, p.message))),
            }
            let got = a.dump(&wa);
            drop(ra);
            wa.abort();
            w.count("upgrades_0_4_to_0_5", 1);
            if got != expected {
                return Err((
                    "U/content".into(),
                    format!("upgrading (old name {old_name:?}, one environment) does not give the current layout of the same content: {}", diff_summary(&expected, &got)),
                ));
            }
        }
    }
    // the upgraded database opens iff no update was pending (public API, on the second environment)
    SECOND_ENV.with(|s| -> Result<(), Fail> {
        let s = s.borrow();
        let b = s.as_ref().unwrap();
        let rb = b.env.read_txn().unwrap();
        let has_meta = st.model.built.is_some();
        let pending = st.model.stale;
        for index in std::iter::once(cfg.index).chain(twins(cfg.index)) {
            let open = arroy::Reader::<arroy::distances::Cosine>::open(&rb, index, arroy_db::<arroy::distances::Cosine>(b.db));
            let got = match &open {
                Ok(_) => "Ok".to_string(),
                Err(e) => crate::exec::ErrKind::of(e).tag(),
            };
            let want = if !has_meta { "MissingMetadata" } else if pending { "NeedBuild" } else { "Ok" };
            if got != want {
                return Err(("U/open".into(), format!("after the upgrade Reader::open(index {index}) = {got}, expected {want}")));
            }
            if let Ok(reader) = open {
                match catch(|| reader.assert_validity(&rb)) {
                    Ok(Ok(())) => {}
                    other => return Err(("U/validity".into(), format!("the upgraded index {index} fails upstream's validity walk: {:?}", other.map(|r| r.map_err(|e| e.to_string())).map_err(|p| p.message)))),
                }
                w.count("upgraded_indexes_opened", 1);
            }
        }
        Ok(())
    })?;
    // 0.5 -> 0.6: exactly one version record per index that has metadata, nothing else changes
    // (run on built states and on never-built ones, which hold items but no metadata)
    // (on every state: built, never built, and built with pending updates)
    let _ = built;
    {
        SECOND_ENV.with(|s| -> Result<(), Fail> {
            let s = s.borrow();
            let b = s.as_ref().unwrap();
            // a database may hold indexes of several metrics: the metadata of the last twin is re-labelled
            // with another metric's name before the 0.5 -> 0.6 step (every index with metadata gets a record)
            {
                let mut wb = b.env.write_txn().unwrap();
                let last_twin = *twins(cfg.index).iter().max().unwrap();
                let key = encode_key(last_twin, KIND_METADATA, 0);
                let stored: Option<Vec<u8>> = b.db.get(&wb, &key).unwrap().map(|v| v.to_vec());
                if let Some(v) = stored {
                    if let Ok(mut m) = crate::layout::parse_meta(&v) {
                        m.name = "manhattan".to_string();
                        b.db.put(&mut wb, &key, &crate::layout::encode_meta(&m)).unwrap();
                        w.count("relabelled_metadata", 1);
                    }
                }
                wb.commit().unwrap();
            }
            let rb = b.env.read_txn().unwrap();
            let before = b.dump(&rb);
            let mut wb = b.env.write_txn().unwrap();
            let r = catch(|| {
                arroy::upgrade::from_0_5_to_0_6::<arroy::distances::Cosine>(
                    &rb,
                    arroy_db::<arroy::distances::Cosine>(b.db),
                    &mut wb,
                    arroy_db::<arroy::distances::Cosine>(b.db),
                )
            });
            match r {
                Ok(Ok(())) => {}
                Ok(Err(e)) => return Err(("U/upgrade-failed".into(), format!("from_0_5_to_0_6: {e}"))),
                Err(p) => return Err((format!("U/upgrade-panicked:{}", p.site()), format!("{}: {}", p.location, p.message))),
            }
            let after = b.dump(&wb);
            drop(rb);
            wb.abort();
            let mut want = before.clone();
            let version: Vec<u8> = arroy_version().iter().flat_map(|p| p.to_be_bytes()).collect();
            for (k, _) in &before {
                let p = parse_key(k).unwrap();
                if p.kind == KIND_METADATA && p.id == 0 {
                    want.push((encode_key(p.index, KIND_METADATA, 1).to_vec(), version.clone()));
                }
            }
            want.sort();
            w.count("upgrades_0_5_to_0_6", 1);
            if after != want {
                return Err(("U/version-records".into(), format!("from_0_5_to_0_6 must add one version record per index with metadata and change nothing else: {}", diff_summary(&want, &after))));
            }
            Ok(())
        })?;
    }
    Ok(())
}

/// The version of the arroy crate under test, read from its manifest.
pub fn arroy_version() -> [u32; 3] {
    let repo = std::env::var("VERIF_REPO").unwrap_or_else(|_| "/repo".to_string());
    let text = std::fs::read_to_string(format!("{repo}/Cargo.toml")).unwrap_or_default();
    let line = text.lines().find(|l| l.trim_start().starts_with("version")).unwrap_or("version = \"0.0.0\"");
    let v: Vec<u32> = line.split('"').nth(1).unwrap_or("0.0.0").split('.').map(|p| p.parse().unwrap_or(0)).collect();
    [v.first().copied().unwrap_or(0), v.get(1).copied().unwrap_or(0), v.get(2).copied().unwrap_or(0)]
}
