//! Oracles that are independent of arroy's code: the structure oracle S (C01), the exact
//! search oracle X (C02/C03), the routing oracle (C04), all evaluated on decoded dumps and
//! on the reference model.

use std::collections::{BTreeMap, BTreeSet};

use roaring::RoaringBitmap;

use crate::common::Metric;
use crate::layout::{bq_bits, f32_components, Child, DIndex, TreeNode};

pub const EPS32: f64 = 1.1920929e-7; // 2^-23

/// (clause, message)
pub type Fail = (String, String);

fn fail<T>(clause: &str, msg: String) -> Result<T, Fail> {
    Err((clause.to_string(), msg))
}

#[derive(Debug, Clone, Default)]
pub struct StructStats {
    pub trees: usize,
    pub splits: usize,
    pub buckets: usize,
    pub item_children: usize,
    pub max_bucket: u64,
    pub max_depth: usize,
    pub zero_normals: usize,
    pub empty_buckets: usize,
}

/// S(index): every tree covers exactly the live items, each once; every referenced node
/// exists; no tree node is shared or reachable twice; no orphan tree node; no updated mark.
pub fn structure(
    ix: &DIndex,
    expect_items: &BTreeSet<u32>,
    metric: Metric,
    dim: usize,
) -> Result<StructStats, Fail> {
    let meta = match &ix.meta {
        Some(m) => m,
        None => return fail("S/meta-missing", "no metadata record after a successful build".into()),
    };
    if meta.name != metric.disk_name() {
        return fail("S/meta-name", format!("metadata metric {:?}, expected {:?}", meta.name, metric.disk_name()));
    }
    if meta.dimensions as usize != dim {
        return fail("S/meta-dim", format!("metadata dimensions {}, expected {dim}", meta.dimensions));
    }
    let item_keys: BTreeSet<u32> = ix.items.keys().copied().collect();
    if &item_keys != expect_items {
        return fail(
            "S/items-model",
            format!("item keys {:?} differ from the model {:?}", item_keys, expect_items),
        );
    }
    let meta_items: BTreeSet<u32> = meta.items.iter().collect();
    if meta_items != item_keys {
        return fail(
            "S/meta-items",
            format!("metadata.items {:?} differ from the item keys {:?}", meta_items, item_keys),
        );
    }
    if !ix.updated.is_empty() {
        return fail("S/updated-left", format!("updated marks left after build: {:?}", ix.updated));
    }
    let mut stats = StructStats { trees: meta.roots.len(), ..Default::default() };
    let mut visited_nodes: BTreeSet<u32> = BTreeSet::new();
    let mut seen_roots = BTreeSet::new();
    for &root in &meta.roots {
        if !seen_roots.insert(root) {
            return fail("S/root-duplicate", format!("root {root} listed twice"));
        }
        let mut reached: BTreeSet<u32> = BTreeSet::new();
        // iterative walk: (child, depth)
        let mut stack = vec![(Child::Tree(root), 1usize)];
        while let Some((c, depth)) = stack.pop() {
            stats.max_depth = stats.max_depth.max(depth);
            match c {
                Child::Item(id) => {
                    stats.item_children += 1;
                    if !ix.items.contains_key(&id) {
                        return fail(
                            "S/dangling-item",
                            format!("tree {root} refers to Item({id}) which is not stored"),
                        );
                    }
                    if !reached.insert(id) {
                        return fail("S/item-twice", format!("tree {root} reaches item {id} twice"));
                    }
                }
                Child::Tree(id) => {
                    let node = match ix.trees.get(&id) {
                        Some(n) => n,
                        None => {
                            return fail(
                                "S/dangling-tree",
                                format!("tree {root} refers to Tree({id}) which does not exist"),
                            )
                        }
                    };
                    if !visited_nodes.insert(id) {
                        return fail(
                            "S/node-shared",
                            format!("tree node {id} is reachable twice (while walking tree {root})"),
                        );
                    }
                    match node {
                        TreeNode::Bucket(bm) => {
                            stats.buckets += 1;
                            stats.max_bucket = stats.max_bucket.max(bm.len());
                            if bm.is_empty() {
                                stats.empty_buckets += 1;
                            }
                            for it in bm.iter() {
                                if !ix.items.contains_key(&it) {
                                    return fail(
                                        "S/dangling-item",
                                        format!("bucket {id} of tree {root} holds item {it} which is not stored"),
                                    );
                                }
                                if !reached.insert(it) {
                                    return fail(
                                        "S/item-twice",
                                        format!("tree {root} reaches item {it} twice"),
                                    );
                                }
                            }
                        }
                        TreeNode::Split { left, right, normal } => {
                            stats.splits += 1;
                            if normal_is_degenerate(metric, normal) {
                                stats.zero_normals += 1;
                            }
                            stack.push((*left, depth + 1));
                            stack.push((*right, depth + 1));
                        }
                    }
                }
            }
        }
        if &reached != expect_items {
            let missing: Vec<_> = expect_items.difference(&reached).collect();
            let extra: Vec<_> = reached.difference(expect_items).collect();
            return fail(
                "S/tree-coverage",
                format!("tree {root} misses items {missing:?} / reaches non-live {extra:?}"),
            );
        }
    }
    let all_nodes: BTreeSet<u32> = ix.trees.keys().copied().collect();
    if all_nodes != visited_nodes {
        let orphans: Vec<_> = all_nodes.difference(&visited_nodes).collect();
        return fail("S/orphan-nodes", format!("tree nodes {orphans:?} belong to no tree"));
    }
    Ok(stats)
}

/// `is_zero` of the vector codec: f32 = all components == 0.0 ; BQ = all bytes zero.
pub fn normal_is_degenerate(metric: Metric, normal: &[u8]) -> bool {
    if metric.is_bq() {
        normal.iter().all(|b| *b == 0)
    } else {
        f32_components(normal).iter().all(|f| *f == 0.0)
    }
}

// ------------------------------------------------------------------------------------------
// metric definitions in f64

fn f(bits: u32) -> f64 {
    f32::from_bits(bits) as f64
}

fn sign_plus(bits: u32) -> bool {
    bits >> 31 == 0
}

pub fn hamming(a: &[u32], b: &[u32]) -> u64 {
    a.iter().zip(b).filter(|(x, y)| sign_plus(**x) != sign_plus(**y)).count() as u64
}

/// The value arroy must report for the pair, and the tolerance within which an f32
/// evaluation in any summation order (with or without FMA) must fall. `None` when the
/// definition gives no verdict for this pair (cosine with a norm product in (0, eps]).
pub fn true_distance(metric: Metric, dim: usize, a: &[u32], b: &[u32]) -> Option<(f64, f64)> {
    let n = dim as f64;
    match metric {
        Metric::Euclidean => {
            let s: f64 = a.iter().zip(b).map(|(x, y)| (f(*x) - f(*y)).powi(2)).sum();
            let d = s.sqrt();
            Some((d, d * (n + 8.0) * EPS32 + 1e-37))
        }
        Metric::Manhattan => {
            let s: f64 = a.iter().zip(b).map(|(x, y)| (f(*x) - f(*y)).abs()).sum();
            Some((s, s * (n + 8.0) * EPS32 + 1e-37))
        }
        Metric::DotProduct => {
            let s: f64 = a.iter().zip(b).map(|(x, y)| f(*x) * f(*y)).sum();
            let abs: f64 = a.iter().zip(b).map(|(x, y)| (f(*x) * f(*y)).abs()).sum();
            Some((s, abs * (n + 8.0) * EPS32 + 1e-37))
        }
        Metric::Cosine => {
            let dot: f64 = a.iter().zip(b).map(|(x, y)| f(*x) * f(*y)).sum();
            let na: f64 = a.iter().map(|x| f(*x) * f(*x)).sum::<f64>().sqrt();
            let nb: f64 = b.iter().map(|x| f(*x) * f(*x)).sum::<f64>().sqrt();
            let p = na * nb;
            if p == 0.0 {
                return Some((0.0, 0.0));
            }
            if p <= 4.0 * EPS32 {
                return None;
            }
            let cos = (dot / p).clamp(-1.0, 1.0);
            Some(((1.0 - cos) / 2.0, (2.0 * n + 24.0) * EPS32))
        }
        Metric::BqEuclidean => {
            let h = hamming(a, b) as f64;
            let v = 4.0 * h / n;
            Some((v, v * EPS32))
        }
        Metric::BqManhattan => {
            let h = hamming(a, b) as f64;
            let v = 2.0 * h / n;
            Some((v, v * EPS32))
        }
        Metric::BqCosine => {
            let h = hamming(a, b) as f64;
            let padded = (dim.div_ceil(64) * 64) as f64;
            Some((h / padded, 2.0 * EPS32))
        }
    }
}

/// true when larger reported values mean nearer
pub fn larger_is_nearer(metric: Metric) -> bool {
    metric == Metric::DotProduct
}

#[derive(Clone, Copy, PartialEq, Eq, Debug)]
pub enum Exactness {
    /// unlimited budget: the list must be the exact top-k
    Exact,
    /// any budget: at most count, well-formed
    WellFormed,
}

/// Judges one result list against the model.
pub fn check_result(
    metric: Metric,
    dim: usize,
    model: &BTreeMap<u32, Vec<u32>>,
    query: &[u32],
    count: usize,
    filter: Option<&RoaringBitmap>,
    result: &[(u32, f32)],
    mode: Exactness,
    judge_distances: bool,
) -> Result<(), Fail> {
    let eligible: Vec<u32> =
        model.keys().copied().filter(|id| filter.map_or(true, |f| f.contains(*id))).collect();
    let want_len = count.min(eligible.len());
    match mode {
        Exactness::Exact => {
            if result.len() != want_len {
                return fail(
                    "X/len",
                    format!("{} results, expected min(count={count}, eligible={}) = {want_len}", result.len(), eligible.len()),
                );
            }
        }
        Exactness::WellFormed => {
            if result.len() > want_len {
                return fail("X/len", format!("{} results for count={count}, eligible={}", result.len(), eligible.len()));
            }
        }
    }
    let mut seen = BTreeSet::new();
    for (id, _) in result {
        if !seen.insert(*id) {
            return fail("X/dup", format!("item {id} returned twice: {result:?}"));
        }
        if !model.contains_key(id) {
            return fail("X/not-stored", format!("item {id} is not stored: {result:?}"));
        }
        if !filter.map_or(true, |f| f.contains(*id)) {
            return fail("X/outside-filter", format!("item {id} is outside the candidate filter: {result:?}"));
        }
    }
    // order by reported distance
    let desc = larger_is_nearer(metric);
    // Degenerate data (C20): a score that is NaN or overflowed is ordered by the implementation's
    // total order *before* normalisation, which the reported value no longer shows (Manhattan
    // reports max(NaN, 0) = 0). Ordering is therefore judged only between results whose vectors,
    // like the query, are made of finite, moderate components.
    let clean = |v: &[u32]| v.iter().all(|b| {
        let x = f32::from_bits(*b);
        x.is_finite() && x.abs() < 1e18
    });
    let query_clean = clean(query);
    for w in result.windows(2) {
        let (a, b) = (w[0].1, w[1].1);
        if !judge_distances {
            // a candidate without a score (NaN) is never ranked before one that has a score:
            // "nearest first" under the total order that puts NaN last
            if a.is_nan() && !b.is_nan() {
                return fail("X/order-nan", format!("an unscored (NaN) result precedes a scored one: {result:?}"));
            }
            let both_clean = query_clean && model.get(&w[0].0).map_or(false, |v| clean(v)) && model.get(&w[1].0).map_or(false, |v| clean(v));
            if !both_clean || a.is_nan() || b.is_nan() {
                continue;
            }
        }
        let ok = if desc { a >= b } else { a <= b };
        if !ok {
            return fail("X/order", format!("results not ordered nearest first: {result:?}"));
        }
    }
    if !judge_distances {
        return Ok(());
    }
    let mut truth: BTreeMap<u32, (f64, f64)> = BTreeMap::new();
    for id in &eligible {
        match true_distance(metric, dim, query, &model[id]) {
            Some(t) => {
                truth.insert(*id, t);
            }
            None => return Ok(()), // no verdict for this query
        }
    }
    for (id, d) in result {
        let (t, tol) = truth[id];
        if !((*d as f64 - t).abs() <= tol) {
            return fail(
                "X/distance",
                format!("item {id} reported at {d}, definition gives {t} (tolerance {tol:e})"),
            );
        }
    }
    if mode == Exactness::Exact && !result.is_empty() {
        // the worst returned item must not be farther than any omitted eligible item
        let worst = result
            .iter()
            .map(|(id, _)| truth[id])
            .fold(None::<(f64, f64)>, |acc, t| match acc {
                None => Some(t),
                Some(a) => {
                    if (desc && t.0 < a.0) || (!desc && t.0 > a.0) {
                        Some(t)
                    } else {
                        Some(a)
                    }
                }
            })
            .unwrap();
        for id in &eligible {
            if seen.contains(id) {
                continue;
            }
            let (t, tol) = truth[id];
            let closer = if desc { t > worst.0 + tol + worst.1 } else { t < worst.0 - tol - worst.1 };
            if closer {
                return fail(
                    "X/missed-closer",
                    format!("item {id} at {t} was omitted although {} was returned: {result:?}", worst.0),
                );
            }
        }
    }
    Ok(())
}

// ------------------------------------------------------------------------------------------
// routing (C04)

#[derive(Debug, Default, Clone)]
pub struct RoutingStats {
    pub planes_judged: u64,
    pub planes_degenerate: u64,
    pub margins_zero_or_uncertain: u64,
    pub items_with_clean_tree: u64,
    /// binary-quantised normals with as many +1 as -1 bits (their Manhattan "norm" is zero)
    pub planes_balanced: u64,
}

/// Margin of `item` against `normal` in f64 with the certainty threshold of the f32 kernel.
/// Returns (margin, certain).
pub fn margin(metric: Metric, normal: &[u8], item_vec: &[u8]) -> (f64, bool) {
    if metric.is_bq() {
        let nb = bq_bits(normal);
        let ib = bq_bits(item_vec);
        let h = nb.iter().zip(&ib).filter(|(a, b)| a != b).count() as f64;
        let m = nb.len() as f64 - 2.0 * h;
        (m, m != 0.0)
    } else {
        let nv = f32_components(normal);
        let iv = f32_components(item_vec);
        let m: f64 = nv.iter().zip(&iv).map(|(a, b)| *a as f64 * *b as f64).sum();
        let abs: f64 = nv.iter().zip(&iv).map(|(a, b)| (*a as f64 * *b as f64).abs()).sum();
        let tol = (nv.len() as f64 + 8.0) * EPS32 * abs + 1e-37;
        // when the partial sums can overflow f32 the evaluated margin is +-inf or NaN depending on the
        // summation order, unless every non-zero term has the same sign (then it is that sign's
        // infinity, or finite with that sign, in any order)
        // every partial sum, in any order (lane-wise or sequential), lies between the sum of the negative
        // terms and the sum of the positive terms: when both are well inside the f32 range nothing overflows
        let sum_pos: f64 = nv.iter().zip(&iv).map(|(a, b)| (*a as f64 * *b as f64).max(0.0)).sum();
        let sum_neg: f64 = nv.iter().zip(&iv).map(|(a, b)| (*a as f64 * *b as f64).min(0.0)).sum();
        let may_overflow = sum_pos.max(-sum_neg) >= f32::MAX as f64 * 0.99;
        let one_sign = {
            let pos = nv.iter().zip(&iv).any(|(a, b)| *a as f64 * *b as f64 > 0.0);
            let neg = nv.iter().zip(&iv).any(|(a, b)| (*a as f64 * *b as f64) < 0.0);
            !(pos && neg)
        };
        (m, m.abs() > tol && m.is_finite() && (!may_overflow || one_sign))
    }
}

/// For every tree, every split and every stored item below it: the item lies on the side its
/// own vector is routed to. Returns, per item, whether some tree separates it by
/// non-degenerate, certain planes only.
pub fn routing(ix: &DIndex, metric: Metric) -> Result<(RoutingStats, BTreeSet<u32>), Fail> {
    let mut stats = RoutingStats::default();
    let mut clean_items = BTreeSet::new();
    let meta = match &ix.meta {
        Some(m) => m,
        None => return Ok((stats, clean_items)),
    };
    for &root in &meta.roots {
        // walk with the set of (normal, went_right) constraints above
        let mut stack: Vec<(Child, Vec<(u32, bool)>)> = vec![(Child::Tree(root), Vec::new())];
        while let Some((c, path)) = stack.pop() {
            let items_here: Vec<u32> = match c {
                Child::Item(id) => vec![id],
                Child::Tree(id) => match ix.trees.get(&id) {
                    Some(TreeNode::Bucket(bm)) => bm.iter().collect(),
                    Some(TreeNode::Split { left, right, .. }) => {
                        let mut pl = path.clone();
                        pl.push((id, false));
                        stack.push((*left, pl));
                        let mut pr = path.clone();
                        pr.push((id, true));
                        stack.push((*right, pr));
                        continue;
                    }
                    None => continue, // S reports this
                },
            };
            for it in items_here {
                let leaf = match ix.items.get(&it) {
                    Some(l) => l,
                    None => continue,
                };
                let mut clean = true;
                for (split_id, went_right) in &path {
                    let normal = match ix.trees.get(split_id) {
                        Some(TreeNode::Split { normal, .. }) => normal,
                        _ => unreachable!(),
                    };
                    if normal_is_degenerate(metric, normal) {
                        stats.planes_degenerate += 1;
                        clean = false;
                        continue;
                    }
                    // a float normal with a non-finite component is not the all-zero dummy plane, yet no margin
                    // against it is defined: the items below it were placed at random and a query equal to one of
                    // them is sent to one child first whatever the item's side — the clause fails for every item
                    // of the other child
                    if !metric.is_bq() && f32_components(normal).iter().any(|x| !x.is_finite()) {
                        return fail(
                            "R/non-finite-normal",
                            format!("tree {root}: split {split_id} stores a normal with a non-finite component (not the zeroed dummy plane); item {it} and the others below it lie on a side no margin defines"),
                        );
                    }
                    if metric.is_bq() {
                        let ones: u32 = normal.iter().map(|b| b.count_ones()).sum();
                        if ones as usize * 2 == normal.len() * 8 {
                            stats.planes_balanced += 1;
                        }
                    }
                    let (m, certain) = margin(metric, normal, &leaf.vector);
                    if !certain {
                        stats.margins_zero_or_uncertain += 1;
                        clean = false;
                        continue;
                    }
                    stats.planes_judged += 1;
                    let should_be_right = m > 0.0;
                    if should_be_right != *went_right {
                        return fail(
                            "R/wrong-side",
                            format!(
                                "tree {root}: item {it} lies {} of split {split_id} but its margin is {m}",
                                if *went_right { "right" } else { "left" }
                            ),
                        );
                    }
                }
                if clean {
                    clean_items.insert(it);
                }
            }
        }
    }
    stats.items_with_clean_tree = clean_items.len() as u64;
    Ok((stats, clean_items))
}
