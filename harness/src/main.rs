mod common;
mod exec;
mod explore;
mod hist;
mod lattice;
mod layout;
mod oracle;
mod props;
mod sched;
mod txnsys;
mod upgrade;

use common::Tier;

fn main() {
    let args: Vec<String> = std::env::args().collect();
    if args.len() >= 5 && args[1] == "crash-child" {
        // C09: the process that gets killed
        std::process::exit(props::c09::child(&args[2], &args[3], args[4].parse().unwrap_or(-1)));
    }
    common::install_panic_hook();
    common::sweep_stale_scratch();
    // anonymous build scratch files go to the tmpfs too (C10 sets its own temp directories)
    if std::env::var_os("VERIF_KEEP_TMPDIR").is_none() {
        let t = common::scratch_root().join(format!("{}-tmp", std::process::id()));
        if std::fs::create_dir_all(&t).is_ok() {
            std::env::set_var("TMPDIR", &t);
        }
    }
    if args.len() < 2 {
        eprintln!("usage: verif <C01..C20> [--tier quick|thorough] | verif replay <file>");
        std::process::exit(2);
    }
    let mut tier = match std::env::var("VERIF_TIER").as_deref() {
        Ok("thorough") => Tier::Thorough,
        _ => Tier::Quick,
    };
    let mut i = 2;
    while i < args.len() {
        if args[i] == "--tier" && i + 1 < args.len() {
            tier = if args[i + 1] == "thorough" { Tier::Thorough } else { Tier::Quick };
            i += 1;
        }
        i += 1;
    }
    std::env::set_var("VERIF_TIER_INTERNAL", tier.name());
    let code = match args[1].as_str() {
        "replay" => props::replay::run(&args[2]),
        id => {
            // Safety net: every call into arroy is wrapped individually, but if a panic of the
            // subject ever escapes a check, it is a verdict about the subject (arroy was given
            // valid inputs), not a crash of the machinery.
            match common::catch(|| props::run(id, tier)) {
                Ok(code) => code,
                Err(p) if p.location.starts_with("src/") => {
                    let mut r = common::Report::new(id, tier, "other");
                    r.cov("explanation", "the check was interrupted by a panic inside arroy");
                    r.add_violation(common::Violation::new(
                        format!("PANIC/{}", p.site()),
                        format!("arroy panicked at {} while {id} was driving it with valid inputs: {}", p.location, p.message),
                    ));
                    r.finish()
                }
                Err(p) => {
                    println!("MACHINERY-ERROR property={id} the harness panicked at {}: {}", p.location, p.message);
                    2
                }
            }
        }
    };
    std::process::exit(code);
}
