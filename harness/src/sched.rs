//! E2 — cooperative token-passing scheduler. Real OS threads run real code; a participant
//! may only proceed while it holds the token; at every yield point it hands the token back
//! to the controller, which decides who runs next. One entity runs at a time, so an
//! execution is a pure function of the sequence of choices.

use std::sync::{Arc, Condvar, Mutex};
use std::time::Duration;

#[derive(Clone, Debug, PartialEq)]
pub enum Status {
    /// not yet arrived at its first yield point
    Absent,
    /// blocked at a yield point (label, value)
    Blocked(&'static str, u64),
    Running,
    Done,
}

struct Inner {
    status: Vec<Status>,
    /// participant currently allowed to run
    token: Option<usize>,
    /// the controller asked everybody to run freely (shutdown / abandon)
    free_run: bool,
}

struct Core {
    m: Mutex<Inner>,
    /// the controller waits here
    ctl: Condvar,
    /// participant i waits on cvs[i] (targeted wake-ups: no thundering herd)
    cvs: Vec<Condvar>,
}

#[derive(Clone)]
pub struct Sched {
    inner: Arc<Core>,
}

impl Sched {
    pub fn new(participants: usize) -> Sched {
        Sched {
            inner: Arc::new(Core {
                m: Mutex::new(Inner { status: vec![Status::Absent; participants], token: None, free_run: false }),
                ctl: Condvar::new(),
                cvs: (0..participants).map(|_| Condvar::new()).collect(),
            }),
        }
    }

    /// Back to the initial situation (between two executions of the same team of threads).
    pub fn reset_all(&self) {
        let mut g = self.inner.m.lock().unwrap();
        for s in g.status.iter_mut() {
            *s = Status::Absent;
        }
        g.token = None;
        g.free_run = false;
    }

    /// Participant side: arrive at a yield point and wait for the token.
    pub fn yield_point(&self, id: usize, label: &'static str, value: u64) {
        let c = &*self.inner;
        let mut g = c.m.lock().unwrap();
        if g.free_run {
            return;
        }
        g.status[id] = Status::Blocked(label, value);
        if g.token == Some(id) {
            g.token = None;
        }
        c.ctl.notify_one();
        while g.token != Some(id) && !g.free_run {
            g = c.cvs[id].wait(g).unwrap();
        }
        if !g.free_run {
            g.status[id] = Status::Running;
        }
    }

    /// Participant side: this participant will not yield any more.
    pub fn finish(&self, id: usize) {
        let c = &*self.inner;
        let mut g = c.m.lock().unwrap();
        g.status[id] = Status::Done;
        if g.token == Some(id) {
            g.token = None;
        }
        c.ctl.notify_one();
    }

    /// Controller side: wait until nobody runs and at least `expected` participants have
    /// arrived (blocked or done). Returns the statuses, or None on timeout (a participant
    /// runs without ever yielding: livelock / lost participant).
    pub fn quiesce(&self, expected: usize, timeout: Duration) -> Option<Vec<Status>> {
        let c = &*self.inner;
        let cv = &c.ctl;
        let mut g = c.m.lock().unwrap();
        let deadline = std::time::Instant::now() + timeout;
        loop {
            let arrived = g.status.iter().filter(|s| matches!(s, Status::Blocked(..) | Status::Done)).count();
            let running = g.status.iter().filter(|s| matches!(s, Status::Running)).count();
            if g.token.is_none() && running == 0 && arrived >= expected {
                return Some(g.status.clone());
            }
            let now = std::time::Instant::now();
            if now >= deadline {
                return None;
            }
            let (ng, _) = cv.wait_timeout(g, deadline - now).unwrap();
            g = ng;
        }
    }

    /// Controller side: let participant `id` run until its next yield point.
    pub fn release(&self, id: usize) {
        let c = &*self.inner;
        let mut g = c.m.lock().unwrap();
        debug_assert!(matches!(g.status[id], Status::Blocked(..)));
        g.status[id] = Status::Running;
        g.token = Some(id);
        c.cvs[id].notify_one();
    }

    /// Controller side: mark a participant as absent again (it will register anew).
    pub fn reset(&self, id: usize) {
        self.inner.m.lock().unwrap().status[id] = Status::Absent;
    }

    /// Lets every participant run to completion without further control.
    pub fn free_run(&self) {
        let c = &*self.inner;
        let mut g = c.m.lock().unwrap();
        g.free_run = true;
        g.token = None;
        for cv in &c.cvs {
            cv.notify_all();
        }
        c.ctl.notify_all();
    }

    pub fn statuses(&self) -> Vec<Status> {
        self.inner.m.lock().unwrap().status.clone()
    }
}

/// Depth-first enumeration of schedules by re-execution.
/// `run(prefix)` executes once, following `prefix` and then the default choice (index 0 of the
/// enabled list) and returns, for every decision point, (state hash if stateful, number of
/// enabled choices, index chosen). The driver stops expanding below a state it has expanded before.
pub struct Point {
    pub state: Option<u128>,
    pub enabled: usize,
    pub chosen: usize,
}

pub struct DfsStats {
    pub executions: u64,
    pub decision_points: u64,
    pub distinct_states: u64,
    pub pruned: u64,
    pub max_depth: usize,
    pub capped: bool,
}

pub fn dfs(
    mut run: impl FnMut(&[usize]) -> Result<Vec<Point>, String>,
    max_executions: u64,
) -> Result<DfsStats, (String, Vec<usize>)> {
    let mut visited: std::collections::HashSet<u128> = std::collections::HashSet::new();
    let mut stack: Vec<Vec<usize>> = vec![Vec::new()];
    let mut stats = DfsStats { executions: 0, decision_points: 0, distinct_states: 0, pruned: 0, max_depth: 0, capped: false };
    while let Some(prefix) = stack.pop() {
        if stats.executions >= max_executions {
            stats.capped = true;
            break;
        }
        let points = run(&prefix).map_err(|e| (e, prefix.clone()))?;
        stats.executions += 1;
        stats.max_depth = stats.max_depth.max(points.len());
        let choices: Vec<usize> = points.iter().map(|p| p.chosen).collect();
        for i in prefix.len()..points.len() {
            stats.decision_points += 1;
            if let Some(s) = points[i].state {
                if !visited.insert(s) {
                    stats.pruned += 1;
                    break;
                }
                stats.distinct_states += 1;
            }
            for alt in 0..points[i].enabled {
                if alt != points[i].chosen {
                    let mut p = choices[..i].to_vec();
                    p.push(alt);
                    stack.push(p);
                }
            }
        }
    }
    Ok(stats)
}
