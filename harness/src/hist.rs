//! The history system explored by E1: `(item-op^{<=K_r} build)^{r<=R}` over a small universe,
//! with the oracles of C01 (structure), C02 (exact search), C03 (query lattice), C04 (routing)
//! and C15 (options) attached as switchable observers.

use std::collections::{BTreeMap, BTreeSet};
use std::num::NonZeroUsize;
use std::sync::Arc;

use heed::RoTxn;
use roaring::RoaringBitmap;
use serde_json::{json, Value};

use crate::common::{arroy_db, catch, floats_of, hash128, kv_hash, Dec, Enc, Kv, Metric, RawDb, Violation, M7};
use crate::exec::{exec, Action, BuildOpts, IndexModel, IndexTypes, Outcome};
use crate::explore::{Seen, Step, System, Worker};
use crate::layout::{decode_index, DIndex, TreeNode, KIND_METADATA, KIND_TREE};
use crate::oracle::{self, check_result, Exactness};
use crate::with_metric;

#[derive(Clone, Debug, Default)]
pub struct Observers {
    pub structure: bool,
    pub exact_search: bool,
    pub lattice: bool,
    pub routing: bool,
    pub options: bool,
    /// upstream's own walker as a cross-check of S
    pub upstream_validity: bool,
    /// C16(b): the decoded dump agrees with what the public API reports
    pub format: bool,
    /// C17: every state, transformed to the v0.4 layout, upgrades back to itself
    pub upgrade: bool,
}

#[derive(Clone, Debug)]
pub struct HistCfg {
    pub metric: Metric,
    pub dim: usize,
    pub index: u16,
    pub ids: Vec<u32>,
    /// menu[k] = the vectors id k may be written with (primary first)
    pub menu: Vec<Vec<Vec<u32>>>,
    pub builds: Vec<BuildOpts>,
    /// K_r for each round; its length is R
    pub ops_per_round: Vec<usize>,
    pub allow_clear: bool,
    pub del_absent: bool,
    pub obs: Observers,
    /// keep the successors of built states only when they have at least this many items (0 = all)
    pub label: String,
}

impl HistCfg {
    pub fn to_json(&self) -> Value {
        json!({
            "metric": self.metric.short(),
            "dim": self.dim,
            "index": self.index,
            "ids": self.ids,
            "vectors": self.menu.iter().map(|m| m.iter().map(|v| crate::exec::show_vec(v)).collect::<Vec<_>>()).collect::<Vec<_>>(),
            "builds": self.builds.iter().map(|b| json!({"n_trees":b.n_trees,"split_after":b.split_after,"memory":b.memory,"seed":b.seed})).collect::<Vec<_>>(),
            "ops_per_round": self.ops_per_round,
            "allow_clear": self.allow_clear,
            "del_absent": self.del_absent,
            "label": self.label,
            "menu_bits": self.menu,
            "builds_full": self.builds.iter().map(|b| Action::Build { index: self.index, opts: b.clone() }.to_json()).collect::<Vec<_>>(),
            "obs": {"structure": self.obs.structure, "exact_search": self.obs.exact_search, "lattice": self.obs.lattice,
                    "routing": self.obs.routing, "options": self.obs.options, "upstream_validity": self.obs.upstream_validity,
                    "format": self.obs.format, "upgrade": self.obs.upgrade},
        })
    }

    pub fn from_json(v: &Value) -> Option<HistCfg> {
        let u32s = |x: &Value| -> Vec<u32> {
            x.as_array().map(|a| a.iter().map(|y| y.as_u64().unwrap_or(0) as u32).collect()).unwrap_or_default()
        };
        let index = v["index"].as_u64()? as u16;
        Some(HistCfg {
            metric: Metric::from_short(v["metric"].as_str()?)?,
            dim: v["dim"].as_u64()? as usize,
            index,
            ids: u32s(&v["ids"]),
            menu: v["menu_bits"].as_array()?.iter().map(|m| m.as_array().map(|a| a.iter().map(&u32s).collect()).unwrap_or_default()).collect(),
            builds: v["builds_full"].as_array()?.iter().filter_map(|b| match Action::from_json(b) {
                Some(Action::Build { opts, .. }) => Some(opts),
                _ => None,
            }).collect(),
            ops_per_round: v["ops_per_round"].as_array()?.iter().map(|x| x.as_u64().unwrap_or(0) as usize).collect(),
            allow_clear: v["allow_clear"].as_bool().unwrap_or(true),
            del_absent: v["del_absent"].as_bool().unwrap_or(true),
            obs: Observers {
                structure: v["obs"]["structure"].as_bool().unwrap_or(false),
                exact_search: v["obs"]["exact_search"].as_bool().unwrap_or(false),
                lattice: v["obs"]["lattice"].as_bool().unwrap_or(false),
                routing: v["obs"]["routing"].as_bool().unwrap_or(false),
                options: v["obs"]["options"].as_bool().unwrap_or(false),
                upstream_validity: v["obs"]["upstream_validity"].as_bool().unwrap_or(false),
                format: v["obs"]["format"].as_bool().unwrap_or(false),
                upgrade: v["obs"]["upgrade"].as_bool().unwrap_or(false),
            },
            label: v["label"].as_str().unwrap_or("").to_string(),
        })
    }
}

/// Small-integer lattice vectors; duplicates across ids are intended (ties).
pub fn universe(dim: usize, n_ids: usize) -> Vec<Vec<Vec<u32>>> {
    let mk = |a: usize, b: usize, c: usize, k: usize| -> Vec<u32> {
        let mut v: Vec<f32> =
            (0..dim).map(|j| (((k * a + j * b + c) % 5) as i32 - 2) as f32).collect();
        if v.iter().all(|x| *x == 0.0) {
            v[0] = 1.0;
        }
        v.iter().map(|x| x.to_bits()).collect()
    };
    let mut menu: Vec<Vec<Vec<u32>>> = (0..n_ids).map(|k| vec![mk(3, 1, 3, k), mk(2, 3, 0, k)]).collect();
    if n_ids >= 3 {
        // a deliberate duplicate: the last id shares the first id's primary vector
        let first = menu[0][0].clone();
        menu[n_ids - 1][0] = first;
    }
    menu
}

/// For the binary-quantised metrics at 33 dimensions and more: pseudo-random sign patterns
/// (a fixed LCG, so the menu is deterministic), Hamming distances around dim/2, so that split
/// normals are neither all-positive nor periodic. The last id duplicates the first one.
pub fn universe_signs(dim: usize, n_ids: usize) -> Vec<Vec<Vec<u32>>> {
    let mut x: u64 = 0x9E37_79B9_7F4A_7C15;
    let mut next = || {
        x = x.wrapping_mul(6364136223846793005).wrapping_add(1442695040888963407);
        (x >> 33) as u32
    };
    let mut mk = || -> Vec<u32> {
        (0..dim)
            .map(|_| {
                let r = next();
                let mag = 1.0 + (r % 3) as f32;
                (if r & 8 == 0 { mag } else { -mag }).to_bits()
            })
            .collect()
    };
    let mut menu: Vec<Vec<Vec<u32>>> = (0..n_ids).map(|_| vec![mk(), mk()]).collect();
    if n_ids >= 3 {
        let first = menu[0][0].clone();
        menu[n_ids - 1][0] = first;
    }
    menu
}

pub fn default_ids(n: usize) -> Vec<u32> {
    // always contains 0 and u32::MAX
    let pool = [0u32, 1, 2, u32::MAX, 7, 1 << 16, 1 << 31, 3];
    let mut v: Vec<u32> = pool.iter().copied().take(n).collect();
    if n >= 2 && !v.contains(&u32::MAX) {
        v[n - 1] = u32::MAX;
    }
    v.sort();
    v
}

#[derive(Clone)]
pub struct HState {
    pub kv: Arc<Kv>,
    pub model: IndexModel,
    pub round: u8,
    pub ops: u8,
    /// C15: the bucket capacity used by every build so far (None = no build yet, Some(None) = mixed)
    pub capacity: Option<Option<usize>>,
}

pub struct HistSystem {
    pub cfg: HistCfg,
}

impl HistSystem {
    fn types(&self) -> IndexTypes {
        let mut t = IndexTypes::new();
        t.insert(self.cfg.index, (self.cfg.metric, self.cfg.dim));
        t
    }
}

fn forest_keys(kv: &Kv) -> Vec<&(Vec<u8>, Vec<u8>)> {
    kv.iter().filter(|(k, _)| k.len() == 8 && (k[2] == KIND_TREE || k[2] == KIND_METADATA)).collect()
}

impl System for HistSystem {
    type State = HState;
    type Action = Action;

    fn name(&self) -> &'static str {
        "hist"
    }

    fn config_json(&self) -> Value {
        self.cfg.to_json()
    }

    fn initial(&self) -> Vec<HState> {
        vec![HState {
            kv: Arc::new(Vec::new()),
            model: IndexModel::new(self.cfg.metric, self.cfg.dim),
            round: 0,
            ops: 0,
            capacity: None,
        }]
    }

    fn key(&self, s: &HState) -> u128 {
        state_key(s)
    }

    fn actions(&self, s: &HState) -> Vec<Action> {
        let cfg = &self.cfg;
        let r = s.round as usize;
        if r >= cfg.ops_per_round.len() {
            return Vec::new();
        }
        let index = cfg.index;
        let mut out = Vec::new();
        if (s.ops as usize) < cfg.ops_per_round[r] {
            if r == 0 {
                // first population: primary vectors, ascending ids (every subset is reached once)
                let max = s.model.items.keys().next_back().copied();
                for (k, id) in cfg.ids.iter().enumerate() {
                    if max.map_or(true, |m| *id > m) {
                        out.push(Action::Add { index, id: *id, vec: cfg.menu[k][0].clone() });
                    }
                }
            } else {
                for (k, id) in cfg.ids.iter().enumerate() {
                    for v in &cfg.menu[k] {
                        out.push(Action::Add { index, id: *id, vec: v.clone() });
                    }
                }
                for id in &cfg.ids {
                    if cfg.del_absent || s.model.items.contains_key(id) {
                        out.push(Action::Del { index, id: *id });
                    }
                }
                if cfg.allow_clear {
                    out.push(Action::Clear { index });
                }
            }
        }
        // a build closes the round (a build without pending operation is allowed after round 0)
        if s.ops > 0 || r > 0 {
            for b in &cfg.builds {
                out.push(Action::Build { index, opts: b.clone() });
            }
        }
        out
    }

    fn action_json(&self, a: &Action) -> Value {
        a.to_json()
    }

    fn encode_state(&self, s: &HState, e: &mut Enc) {
        e.kv(&s.kv);
        encode_index_model(&s.model, e);
        e.u8(s.round);
        e.u8(s.ops);
        match s.capacity {
            None => e.u8(0),
            Some(None) => e.u8(1),
            Some(Some(c)) => {
                e.u8(2);
                e.u64(c as u64);
            }
        }
    }

    fn decode_state(&self, d: &mut Dec) -> HState {
        let kv = Arc::new(d.kv());
        let model = decode_index_model(d);
        let round = d.u8();
        let ops = d.u8();
        let capacity = match d.u8() {
            0 => None,
            1 => Some(None),
            _ => Some(Some(d.u64() as usize)),
        };
        HState { kv, model, round, ops, capacity }
    }

    fn step(&self, w: &mut Worker, s: &HState, a: &Action, seen: &Seen) -> Step<HState> {
        let cfg = &self.cfg;
        let db = w.scratch.db;
        let env = w.scratch.env.clone();
        let mut wtxn = env.write_txn().expect("write txn");
        w.scratch.load(&mut wtxn, &s.kv);
        let mut types = self.types();
        let (outcome, trace) = exec(db, &mut wtxn, &mut types, a);
        let mut violations = Vec::new();
        match &outcome {
            Outcome::Unit | Outcome::Bool(_) => {}
            Outcome::Err(e) => {
                violations.push(Violation::new(
                    format!("B/{}-failed:{}", op_name(a), e.tag()),
                    format!("{} returned {}", a.to_json(), outcome.describe()),
                ));
            }
            Outcome::Panic(p) => {
                violations.push(Violation::new(
                    format!("B/{}-panicked:{}", op_name(a), p.site()),
                    format!("{} panicked at {}: {}", a.to_json(), p.location, p.message),
                ));
            }
        }
        if !violations.is_empty() {
            w.count("failed_actions", 1);
            return Step { next: None, violations };
        }
        let mut model = s.model.clone();
        let mut tmp = crate::exec::Model::default();
        tmp.indexes.insert(cfg.index, model);
        // Del of an absent id must answer false, of a present one true
        if let (Action::Del { id, .. }, Outcome::Bool(b)) = (a, &outcome) {
            let present = tmp.indexes[&cfg.index].items.contains_key(id);
            if *b != present {
                violations.push(Violation::new(
                    "B/del-return",
                    format!("del_item({id}) returned {b}, item present: {present}"),
                ));
            }
        }
        tmp.apply_ok(a);
        model = tmp.indexes.remove(&cfg.index).unwrap();
        let kv = w.scratch.dump(&wtxn);
        let is_build = a.is_build();
        let mut capacity = s.capacity;
        if let Action::Build { opts, .. } = a {
            let cap = opts.split_after.unwrap_or(cfg.dim);
            capacity = match capacity {
                None => Some(Some(cap)),
                Some(Some(c)) if c == cap => Some(Some(cap)),
                _ => Some(None),
            };
        }
        if !is_build && !matches!(a, Action::Clear { .. }) && cfg.obs.structure {
            if forest_keys(&s.kv) != forest_keys(&kv) {
                violations.push(Violation::new(
                    "S/item-op-touched-forest",
                    format!("{} changed tree or metadata keys", a.to_json()),
                ));
            }
        }
        let next = HState {
            kv: Arc::new(kv),
            model,
            round: s.round + is_build as u8,
            ops: if is_build { 0 } else { s.ops + 1 },
            capacity,
        };
        if let Some(t) = trace {
            w.max("max_cancel_polls", t.cancel_polls);
        }
        // oracles that depend on the transition, not only on the state
        if let (true, Action::Build { opts, .. }) = (cfg.obs.options && violations.is_empty(), a) {
            match decode_index(&next.kv, cfg.index, cfg.metric, cfg.dim) {
                Ok(ix) => {
                    if let Err((clause, msg)) =
                        options_oracle(cfg, &ix, &next, opts, db, &wtxn, w)
                    {
                        violations.push(Violation::new(clause, msg));
                    }
                }
                Err(e) => violations.push(Violation::new("F/undecodable", e)),
            }
        }
        let fresh = seen.claim(state_key(&next));
        if !fresh {
            w.count("transitions_to_known_state", 1);
            return Step { next: None, violations };
        }
        if is_build && violations.is_empty() {
            w.count("built_states", 1);
            violations.extend(observe_built(cfg, db, &wtxn, &next, w));
        }
        if cfg.obs.upgrade && violations.is_empty() {
            drop(wtxn);
            if let Err((c, m)) = crate::upgrade::check_state(cfg, &next, is_build, w) {
                violations.push(Violation::new(c, m));
            }
            return if violations.is_empty() {
                Step { next: Some(next), violations }
            } else {
                Step { next: None, violations }
            };
        }
        drop(wtxn);
        if violations.is_empty() {
            Step { next: Some(next), violations }
        } else {
            Step { next: None, violations }
        }
    }
}

pub fn encode_index_model(m: &IndexModel, e: &mut Enc) {
    e.u8(m.metric as u8);
    e.u32(m.dim as u32);
    e.u8(m.built.map_or(255, |b| b as u8));
    e.u8(m.stale as u8);
    e.u32(m.items.len() as u32);
    for (id, v) in &m.items {
        e.u32(*id);
        e.u32s(v);
    }
}

pub fn decode_index_model(d: &mut Dec) -> IndexModel {
    let metric = M7[d.u8() as usize];
    let dim = d.u32() as usize;
    let built = match d.u8() {
        255 => None,
        b => Some(M7[b as usize]),
    };
    let stale = d.u8() == 1;
    let n = d.u32() as usize;
    let mut items = BTreeMap::new();
    for _ in 0..n {
        let id = d.u32();
        items.insert(id, d.u32s());
    }
    IndexModel { metric, dim, items, built, stale }
}

pub fn state_key(s: &HState) -> u128 {
    let kh = kv_hash(&s.kv).to_le_bytes();
    let mut tmp = crate::exec::Model::default();
    tmp.indexes.insert(0, s.model.clone());
    let mb = tmp.hash_bytes();
    let cap = match s.capacity {
        None => [0u8, 0, 0, 0, 0, 0, 0, 0, 0],
        Some(None) => [1u8, 0, 0, 0, 0, 0, 0, 0, 0],
        Some(Some(c)) => {
            let b = (c as u64).to_le_bytes();
            [2u8, b[0], b[1], b[2], b[3], b[4], b[5], b[6], b[7]]
        }
    };
    hash128(&[&kh, &mb, &[s.round, s.ops], &cap])
}

fn op_name(a: &Action) -> &'static str {
    match a {
        Action::Add { .. } => "add",
        Action::Append { .. } => "append",
        Action::Del { .. } => "del",
        Action::Clear { .. } => "clear",
        Action::Build { .. } => "build",
        Action::ChangeMetric { .. } => "change-metric",
        Action::Commit => "commit",
        Action::Abort => "abort",
    }
}

/// All state-only oracles on a freshly built state. `rtxn` is the (uncommitted) write
/// transaction holding the state.
pub fn observe_built(
    cfg: &HistCfg,
    db: RawDb,
    rtxn: &RoTxn,
    st: &HState,
    w: &mut Worker,
) -> Vec<Violation> {
    let mut out = Vec::new();
    let ix = match decode_index(&st.kv, cfg.index, cfg.metric, cfg.dim) {
        Ok(ix) => ix,
        Err(e) => {
            out.push(Violation::new("F/undecodable", format!("the dump does not decode under Appendix A: {e}")));
            return out;
        }
    };
    let expect: BTreeSet<u32> = st.model.items.keys().copied().collect();
    let mut structure_ok = true;
    if cfg.obs.format {
        if let Err((c, m)) = format_oracle(cfg, db, rtxn, &ix, w) {
            out.push(Violation::new(c, m));
        }
    }
    if cfg.obs.structure || cfg.obs.exact_search || cfg.obs.routing || cfg.obs.lattice {
        match oracle::structure(&ix, &expect, cfg.metric, cfg.dim) {
            Ok(stats) => {
                w.count("forests_checked", 1);
                w.count("trees_walked", stats.trees as u64);
                if stats.splits > 0 {
                    w.count("forests_with_split", 1);
                }
                if stats.item_children > 0 {
                    w.count("forests_with_item_child", 1);
                }
                if stats.zero_normals > 0 {
                    w.count("forests_with_degenerate_plane", 1);
                }
                if stats.empty_buckets > 0 {
                    w.count("forests_with_empty_bucket", 1);
                }
                if stats.trees > 1 {
                    w.count("forests_with_several_trees", 1);
                }
                w.max("max_depth", stats.max_depth as u64);
                w.max("max_bucket", stats.max_bucket);
            }
            Err((clause, msg)) => {
                structure_ok = false;
                if cfg.obs.structure {
                    out.push(Violation::new(clause, msg));
                } else {
                    // another property's run: the forest is C01's business, do not judge search on it
                    w.count("skipped_invalid_forest", 1);
                }
            }
        }
    }
    if cfg.obs.upstream_validity && cfg.obs.structure {
        let up = upstream_validity(cfg, db, rtxn);
        match (structure_ok, up) {
            (true, Err(e)) => out.push(Violation::new(
                "S/walkers-disagree",
                format!("own structure oracle accepts, upstream assert_validity rejects: {e}"),
            )),
            (false, Ok(())) => {
                w.count("upstream_walker_missed", 1);
            }
            _ => {}
        }
    }
    if !structure_ok {
        return out;
    }
    if cfg.obs.routing {
        match oracle::routing(&ix, cfg.metric) {
            Ok((stats, clean)) => {
                w.count("planes_judged", stats.planes_judged);
                w.count("planes_degenerate", stats.planes_degenerate);
                w.count("margins_uncertain", stats.margins_zero_or_uncertain);
                w.count("planes_balanced_bq", stats.planes_balanced);
                if let Err((c, m)) = self_lookup(cfg, db, rtxn, st, &clean, w) {
                    out.push(Violation::new(c, m));
                }
            }
            Err((c, m)) => out.push(Violation::new(c, m)),
        }
    }
    if cfg.obs.exact_search {
        if let Err((c, m)) = exact_search(cfg, db, rtxn, st, w) {
            out.push(Violation::new(c, m));
        }
    }
    if cfg.obs.lattice {
        if let Err((c, m)) = crate::lattice::query_lattice(cfg, db, rtxn, st, &ix, w) {
            out.push(Violation::new(c, m));
        }
    }
    out
}

fn upstream_validity(cfg: &HistCfg, db: RawDb, rtxn: &RoTxn) -> Result<(), String> {
    with_metric!(cfg.metric, D => {
        let r = catch(|| -> Result<(), arroy::Error> {
            let reader = arroy::Reader::<D>::open(rtxn, cfg.index, arroy_db::<D>(db))?;
            reader.assert_validity(rtxn)?;
            let _ = reader.stats(rtxn)?;
            Ok(())
        });
        match r {
            Ok(Ok(())) => Ok(()),
            Ok(Err(e)) => Err(e.to_string()),
            Err(p) => Err(format!("panic {}: {}", p.location, p.message)),
        }
    })
}

type QResult = Result<Vec<(u32, f32)>, String>;

/// One query through the public API; a panic or an error is returned as text.
#[allow(clippy::too_many_arguments)]
pub fn query<D: arroy::Distance>(
    reader: &arroy::Reader<D>,
    rtxn: &RoTxn,
    by_item: Option<u32>,
    by_vector: Option<&[f32]>,
    count: usize,
    search_k: Option<usize>,
    oversampling: Option<usize>,
    candidates: Option<&RoaringBitmap>,
) -> Result<Option<Vec<(u32, f32)>>, String> {
    let r = catch(|| -> Result<Option<Vec<(u32, f32)>>, arroy::Error> {
        let mut q = reader.nns(count);
        if let Some(k) = search_k.and_then(NonZeroUsize::new) {
            q.search_k(k);
        }
        if let Some(o) = oversampling.and_then(NonZeroUsize::new) {
            q.oversampling(o);
        }
        if let Some(c) = candidates {
            q.candidates(c);
        }
        match (by_item, by_vector) {
            (Some(id), _) => q.by_item(rtxn, id),
            (None, Some(v)) => q.by_vector(rtxn, v).map(Some),
            _ => unreachable!(),
        }
    });
    match r {
        Ok(Ok(v)) => Ok(v),
        Ok(Err(e)) => Err(format!("error: {e}")),
        Err(p) => Err(format!("panic at {}: {}", p.location, p.message)),
    }
}

fn q_unwrap(r: Result<Option<Vec<(u32, f32)>>, String>, what: &str) -> Result<Vec<(u32, f32)>, oracle::Fail> {
    match r {
        Ok(Some(v)) => Ok(v),
        Ok(None) => Err(("X/none".into(), format!("{what}: Ok(None) for a stored id"))),
        Err(e) => {
            let kind = if e.starts_with("panic") { "X/query-panicked" } else { "X/query-failed" };
            Err((kind.into(), format!("{what}: {e}")))
        }
    }
}

/// C02: unlimited budget = exact top-k, for every stored id, every lattice vector, a count menu.
fn exact_search(cfg: &HistCfg, db: RawDb, rtxn: &RoTxn, st: &HState, w: &mut Worker) -> Result<(), oracle::Fail> {
    let mut qvecs: Vec<Vec<u32>> = cfg.menu.iter().flatten().cloned().collect();
    qvecs.sort();
    qvecs.dedup();
    exact_search_on(cfg.metric, cfg.dim, cfg.index, db, rtxn, &st.model.items, &qvecs, w)
}

#[allow(clippy::too_many_arguments)]
pub fn exact_search_on(
    metric: Metric,
    dim: usize,
    index: u16,
    db: RawDb,
    rtxn: &RoTxn,
    model: &BTreeMap<u32, Vec<u32>>,
    qvecs: &[Vec<u32>],
    w: &mut Worker,
) -> Result<(), oracle::Fail> {
    let n = model.len();
    // "all count >= 0": both ends of the domain too
    let mut counts: Vec<usize> = vec![0, 1, 2, n.saturating_sub(1), n, n + 1, usize::MAX];
    counts.sort();
    counts.dedup();
    with_metric!(metric, D => {
        let reader = match catch(|| arroy::Reader::<D>::open(rtxn, index, arroy_db::<D>(db))) {
            Ok(Ok(r)) => r,
            Ok(Err(e)) => return Err(("X/open-failed".into(), format!("Reader::open after a successful build: {e}"))),
            Err(p) => return Err(("X/open-panicked".into(), format!("Reader::open panicked at {}: {}", p.location, p.message))),
        };
        for &count in &counts {
            for (id, v) in model.iter() {
                let res = q_unwrap(
                    query::<D>(&reader, rtxn, Some(*id), None, count, Some(usize::MAX), None, None),
                    &format!("nns({count}).search_k(MAX).by_item({id})"),
                )?;
                w.count("queries", 1);
                check_result(metric, dim, model, v, count, None, &res, Exactness::Exact, true)
                    .map_err(|(c, m)| (c, format!("nns({count}).search_k(MAX).by_item({id}): {m}")))?;
            }
            for v in qvecs {
                let fv = floats_of(v);
                let res = q_unwrap(
                    query::<D>(&reader, rtxn, None, Some(&fv), count, Some(usize::MAX), None, None),
                    &format!("nns({count}).search_k(MAX).by_vector({fv:?})"),
                )?;
                w.count("queries", 1);
                check_result(metric, dim, model, v, count, None, &res, Exactness::Exact, true)
                    .map_err(|(c, m)| (c, format!("nns({count}).search_k(MAX).by_vector({fv:?}): {m}")))?;
            }
        }
        if n == 0 {
            w.count("empty_index_queried", 1);
        }
        Ok(())
    })
}

/// C04, second clause: an item separated by clean planes in some tree is found with budget 1.
fn self_lookup(
    cfg: &HistCfg,
    db: RawDb,
    rtxn: &RoTxn,
    st: &HState,
    clean: &BTreeSet<u32>,
    w: &mut Worker,
) -> Result<(), oracle::Fail> {
    if clean.is_empty() {
        return Ok(());
    }
    let n = st.model.items.len();
    with_metric!(cfg.metric, D => {
        let reader = match catch(|| arroy::Reader::<D>::open(rtxn, cfg.index, arroy_db::<D>(db))) {
            Ok(Ok(r)) => r,
            Ok(Err(e)) => return Err(("R/open-failed".into(), e.to_string())),
            Err(p) => return Err(("R/open-panicked".into(), p.message)),
        };
        for id in clean {
            let res = q_unwrap(
                query::<D>(&reader, rtxn, Some(*id), None, n, Some(1), Some(1), None),
                &format!("nns({n}).search_k(1).oversampling(1).by_item({id})"),
            )?;
            w.count("self_lookups", 1);
            if !res.iter().any(|(i, _)| i == id) {
                return Err((
                    "R/self-lookup-missed".into(),
                    format!("item {id} is separated by non-degenerate planes in some tree but nns({n}).search_k(1).by_item({id}) returned {res:?}"),
                ));
            }
        }
        Ok(())
    })
}

/// C15: tree count and bucket capacity.
fn options_oracle(
    cfg: &HistCfg,
    ix: &DIndex,
    st: &HState,
    opts: &BuildOpts,
    db: RawDb,
    rtxn: &RoTxn,
    w: &mut Worker,
) -> Result<(), oracle::Fail> {
    let n = st.model.items.len();
    let cap = opts.split_after.unwrap_or(cfg.dim);
    with_metric!(cfg.metric, D => {
        let reader = match catch(|| arroy::Reader::<D>::open(rtxn, cfg.index, arroy_db::<D>(db))) {
            Ok(Ok(r)) => r,
            Ok(Err(e)) => return Err(("O/open-failed".into(), e.to_string())),
            Err(p) => return Err(("O/open-panicked".into(), p.message)),
        };
        let t = reader.n_trees();
        if n == 0 {
            if t != 0 {
                return Err(("O/empty-has-trees".into(), format!("empty index reports {t} trees")));
            }
            w.count("opt_empty", 1);
        } else if n <= cap {
            if t != 1 {
                return Err(("O/single-bucket-trees".into(), format!("{n} items fit one bucket of {cap} but n_trees() = {t}")));
            }
            w.count("opt_single_bucket", 1);
        } else {
            match opts.n_trees {
                Some(req) => {
                    if t != req {
                        return Err(("O/tree-count".into(), format!("{n} items, capacity {cap}: requested {req} trees, n_trees() = {t}")));
                    }
                    w.count("opt_explicit_trees", 1);
                }
                None => {
                    if t < 1 {
                        return Err(("O/auto-zero-trees".into(), format!("{n} items, capacity {cap}, dimension {}: automatic tree count is {t}", cfg.dim)));
                    }
                    w.count("opt_auto_trees", 1);
                }
            }
        }
        if n > 0 {
            let q = st.model.items.values().next().unwrap();
            let res = query::<D>(&reader, rtxn, None, Some(&floats_of(q)), 1, None, None, None);
            match res {
                Ok(Some(v)) if !v.is_empty() => {}
                other => {
                    return Err(("O/no-result".into(), format!("non-empty index ({n} items, {t} trees): nns(1) with the default budget returned {other:?}")));
                }
            }
        }
        Ok::<(), oracle::Fail>(())
    })?;
    if let Some(Some(c)) = st.capacity {
        for (id, node) in &ix.trees {
            if let TreeNode::Bucket(bm) = node {
                if bm.len() as usize > c {
                    return Err((
                        "O/bucket-over-capacity".into(),
                        format!("bucket {id} holds {} items, capacity was {c} in every build", bm.len()),
                    ));
                }
            }
        }
        w.count("opt_capacity_checked", 1);
    }
    Ok(())
}

/// C16(b): everything the independent decoder reads from the dump agrees with the public API.
fn format_oracle(cfg: &HistCfg, db: RawDb, rtxn: &RoTxn, ix: &DIndex, w: &mut Worker) -> Result<(), oracle::Fail> {
    let meta = match &ix.meta {
        Some(m) => m,
        None => return Err(("F/no-metadata".into(), "no metadata record after a build".into())),
    };
    // the version record (written by the single-bucket build path): three u32, big-endian, the crate's version
    if let Some(v) = ix.version {
        w.count("version_records_judged", 1);
        let want = crate::upgrade::arroy_version();
        if [v.0, v.1, v.2] != want {
            return Err(("F/version-record".into(), format!("the version record reads {}.{}.{} under the reference layout (three u32, big-endian), the crate is {}.{}.{}", v.0, v.1, v.2, want[0], want[1], want[2])));
        }
    }
    with_metric!(cfg.metric, D => {
        let r = catch(|| -> Result<(), oracle::Fail> {
            let reader = arroy::Reader::<D>::open(rtxn, cfg.index, arroy_db::<D>(db))
                .map_err(|e| ("F/open-failed".to_string(), e.to_string()))?;
            if reader.n_trees() != meta.roots.len() {
                return Err(("F/roots".into(), format!("Reader::n_trees = {}, decoded metadata lists {} roots", reader.n_trees(), meta.roots.len())));
            }
            if reader.dimensions() != meta.dimensions as usize {
                return Err(("F/dimensions".into(), format!("Reader::dimensions = {}, decoded {}", reader.dimensions(), meta.dimensions)));
            }
            if reader.item_ids() != &meta.items {
                return Err(("F/item-ids".into(), "Reader::item_ids differs from the decoded metadata bitmap".into()));
            }
            for (id, leaf) in &ix.items {
                let api = reader.item_vector(rtxn, *id).map_err(|e| ("F/api".to_string(), e.to_string()))?;
                let want = crate::layout::api_vector(cfg.metric, cfg.dim, &leaf.vector);
                if api.map(|v| crate::common::bits_of(&v)) != Some(want) {
                    return Err(("F/item-vector".into(), format!("Reader::item_vector({id}) differs from the decoded leaf")));
                }
            }
            let stats = reader.stats(rtxn).map_err(|e| ("F/api".to_string(), e.to_string()))?;
            let splits: usize = stats.tree_stats.iter().map(|t| t.split_nodes).sum();
            let buckets: usize = stats.tree_stats.iter().map(|t| t.descendants).sum();
            let dsplits = ix.trees.values().filter(|n| matches!(n, TreeNode::Split { .. })).count();
            let dbuckets = ix.trees.values().filter(|n| matches!(n, TreeNode::Bucket(_))).count();
            if splits != dsplits || buckets != dbuckets {
                return Err(("F/stats".into(), format!("Reader::stats counts {splits} splits / {buckets} buckets, the decoder {dsplits} / {dbuckets}")));
            }
            if stats.leaf != ix.items.len() as u64 {
                return Err(("F/stats".into(), format!("Reader::stats counts {} leaves, the decoder {}", stats.leaf, ix.items.len())));
            }
            Ok(())
        });
        match r {
            Ok(x) => x?,
            Err(p) => return Err((format!("F/api-panicked:{}", p.site()), format!("{}: {}", p.location, p.message))),
        }
    });
    w.count("format_states", 1);
    Ok(())
}

pub fn counts_summary(c: &BTreeMap<String, u64>) -> Value {
    json!(c)
}
