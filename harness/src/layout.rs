//! Independent implementation of the on-disk layout (DESIGN.md Appendix A).
//! Nothing in here calls arroy's codecs; `roaring` is used for bitmap payloads.

use std::collections::{BTreeMap, BTreeSet};

use roaring::RoaringBitmap;

use crate::common::{Kv, Metric};

pub const KIND_METADATA: u8 = 0;
pub const KIND_UPDATED: u8 = 1;
pub const KIND_TREE: u8 = 2;
pub const KIND_ITEM: u8 = 3;

#[derive(Debug, Clone, Copy, PartialEq, Eq, PartialOrd, Ord, Hash)]
pub struct DKey {
    pub index: u16,
    pub kind: u8,
    pub id: u32,
}

pub fn encode_key(index: u16, kind: u8, id: u32) -> [u8; 8] {
    let i = index.to_be_bytes();
    let d = id.to_be_bytes();
    [i[0], i[1], kind, d[0], d[1], d[2], d[3], 0]
}

pub fn parse_key(k: &[u8]) -> Result<DKey, String> {
    if k.len() != 8 {
        return Err(format!("key of {} bytes: {:02x?}", k.len(), k));
    }
    if k[7] != 0 {
        return Err(format!("key padding byte is {:#x}: {:02x?}", k[7], k));
    }
    if k[2] > 3 {
        return Err(format!("key kind {} unknown: {:02x?}", k[2], k));
    }
    Ok(DKey {
        index: u16::from_be_bytes([k[0], k[1]]),
        kind: k[2],
        id: u32::from_be_bytes([k[3], k[4], k[5], k[6]]),
    })
}

#[derive(Debug, Clone, Copy, PartialEq, Eq, PartialOrd, Ord, Hash)]
pub enum Child {
    Item(u32),
    Tree(u32),
}

#[derive(Debug, Clone)]
pub enum TreeNode {
    Bucket(RoaringBitmap),
    Split { left: Child, right: Child, normal: Vec<u8> },
}

#[derive(Debug, Clone)]
pub struct DMeta {
    pub name: String,
    pub dimensions: u32,
    pub items: RoaringBitmap,
    pub roots: Vec<u32>,
}

#[derive(Debug, Clone)]
pub struct DLeaf {
    pub header: Vec<u8>,
    pub vector: Vec<u8>,
}

#[derive(Debug, Clone, Default)]
pub struct DIndex {
    pub meta: Option<DMeta>,
    pub version: Option<(u32, u32, u32)>,
    pub updated: BTreeSet<u32>,
    pub trees: BTreeMap<u32, TreeNode>,
    pub items: BTreeMap<u32, DLeaf>,
}

fn parse_child(b: &[u8]) -> Result<Child, String> {
    let id = u32::from_be_bytes([b[1], b[2], b[3], b[4]]);
    match b[0] {
        KIND_ITEM => Ok(Child::Item(id)),
        KIND_TREE => Ok(Child::Tree(id)),
        k => Err(format!("child of kind {k} (id {id}) inside a split node")),
    }
}

pub fn vector_bytes_len(metric: Metric, dim: usize) -> usize {
    if metric.is_bq() {
        dim.div_ceil(64) * 8
    } else {
        dim * 4
    }
}

pub fn parse_meta(v: &[u8]) -> Result<DMeta, String> {
    let nul = v.iter().position(|b| *b == 0).ok_or("metadata: no NUL after the metric name")?;
    let name = std::str::from_utf8(&v[..nul]).map_err(|e| format!("metadata name: {e}"))?;
    let rest = &v[nul + 1..];
    if rest.len() < 8 {
        return Err("metadata: truncated".into());
    }
    let dimensions = u32::from_be_bytes([rest[0], rest[1], rest[2], rest[3]]);
    let l = u32::from_be_bytes([rest[4], rest[5], rest[6], rest[7]]) as usize;
    let rest = &rest[8..];
    if rest.len() < l {
        return Err("metadata: bitmap length exceeds the record".into());
    }
    let items = RoaringBitmap::deserialize_from(&rest[..l])
        .map_err(|e| format!("metadata items bitmap: {e}"))?;
    if items.serialized_size() != l {
        return Err(format!(
            "metadata: bitmap declared {l} bytes, portable serialisation is {}",
            items.serialized_size()
        ));
    }
    let rest = &rest[l..];
    if rest.len() % 4 != 0 {
        return Err("metadata: roots are not a multiple of 4 bytes".into());
    }
    let roots =
        rest.chunks_exact(4).map(|c| u32::from_ne_bytes([c[0], c[1], c[2], c[3]])).collect();
    Ok(DMeta { name: name.to_string(), dimensions, items, roots })
}

pub fn encode_meta(m: &DMeta) -> Vec<u8> {
    let mut out = Vec::new();
    out.extend_from_slice(m.name.as_bytes());
    out.push(0);
    out.extend_from_slice(&m.dimensions.to_be_bytes());
    out.extend_from_slice(&(m.items.serialized_size() as u32).to_be_bytes());
    m.items.serialize_into(&mut out).unwrap();
    for r in &m.roots {
        out.extend_from_slice(&r.to_ne_bytes());
    }
    out
}

pub fn parse_tree_node(v: &[u8], metric: Metric, dim: usize) -> Result<TreeNode, String> {
    match v.first() {
        Some(1) => {
            let bm = RoaringBitmap::deserialize_from(&v[1..])
                .map_err(|e| format!("bucket bitmap: {e}"))?;
            if bm.serialized_size() != v.len() - 1 {
                return Err("bucket: trailing bytes after the bitmap".into());
            }
            Ok(TreeNode::Bucket(bm))
        }
        Some(2) => {
            if v.len() < 11 {
                return Err("split: truncated".into());
            }
            let left = parse_child(&v[1..6])?;
            let right = parse_child(&v[6..11])?;
            let normal = v[11..].to_vec();
            if normal.len() != vector_bytes_len(metric, dim) {
                return Err(format!(
                    "split: normal has {} bytes, expected {} for {:?} dim {}",
                    normal.len(),
                    vector_bytes_len(metric, dim),
                    metric,
                    dim
                ));
            }
            Ok(TreeNode::Split { left, right, normal })
        }
        Some(t) => Err(format!("tree node with tag {t}")),
        None => Err("empty tree node".into()),
    }
}

pub fn parse_leaf(v: &[u8], metric: Metric, dim: usize) -> Result<DLeaf, String> {
    if v.first() != Some(&0) {
        return Err(format!("leaf with tag {:?}", v.first()));
    }
    let h = metric.header_size();
    let want = 1 + h + vector_bytes_len(metric, dim);
    if v.len() != want {
        return Err(format!(
            "leaf of {} bytes, expected {} for {:?} dim {}",
            v.len(),
            want,
            metric,
            dim
        ));
    }
    Ok(DLeaf { header: v[1..1 + h].to_vec(), vector: v[1 + h..].to_vec() })
}

/// Decodes every key of `index` found in the dump.
pub fn decode_index(kv: &Kv, index: u16, metric: Metric, dim: usize) -> Result<DIndex, String> {
    let mut out = DIndex::default();
    for (k, v) in kv {
        let key = parse_key(k)?;
        if key.index != index {
            continue;
        }
        match key.kind {
            KIND_METADATA => match key.id {
                0 => out.meta = Some(parse_meta(v)?),
                1 => {
                    if v.len() != 12 {
                        return Err(format!("version record of {} bytes", v.len()));
                    }
                    let f = |i: usize| u32::from_be_bytes([v[i], v[i + 1], v[i + 2], v[i + 3]]);
                    out.version = Some((f(0), f(4), f(8)));
                }
                other => return Err(format!("metadata-kind key with id {other}")),
            },
            KIND_UPDATED => {
                if !v.is_empty() {
                    return Err(format!("updated mark {} with a {}-byte value", key.id, v.len()));
                }
                out.updated.insert(key.id);
            }
            KIND_TREE => {
                let node = parse_tree_node(v, metric, dim)
                    .map_err(|e| format!("tree node {}: {e}", key.id))?;
                out.trees.insert(key.id, node);
            }
            KIND_ITEM => {
                let leaf =
                    parse_leaf(v, metric, dim).map_err(|e| format!("item {}: {e}", key.id))?;
                out.items.insert(key.id, leaf);
            }
            _ => unreachable!(),
        }
    }
    Ok(out)
}

pub fn indexes_in(kv: &Kv) -> BTreeSet<u16> {
    kv.iter().filter(|(k, _)| k.len() >= 2).map(|(k, _)| u16::from_be_bytes([k[0], k[1]])).collect()
}

/// f32 components of a stored vector (f32 codec).
pub fn f32_components(bytes: &[u8]) -> Vec<f32> {
    bytes.chunks_exact(4).map(|c| f32::from_ne_bytes([c[0], c[1], c[2], c[3]])).collect()
}

/// Sign bits of a stored binary-quantised vector: `true` = +1. Length = 64 * words.
pub fn bq_bits(bytes: &[u8]) -> Vec<bool> {
    let mut out = Vec::with_capacity(bytes.len() * 8);
    for w in bytes.chunks_exact(8) {
        let word = u64::from_ne_bytes([w[0], w[1], w[2], w[3], w[4], w[5], w[6], w[7]]);
        for i in 0..64 {
            out.push((word >> i) & 1 == 1);
        }
    }
    out
}

/// The vector as the public API must present it: f32 codec = the stored floats;
/// BQ codec = +1/-1 by stored bit, truncated to `dim`.
pub fn api_vector(metric: Metric, dim: usize, vector_bytes: &[u8]) -> Vec<u32> {
    if metric.is_bq() {
        bq_bits(vector_bytes)
            .into_iter()
            .take(dim)
            .map(|b| if b { 1.0f32 } else { -1.0f32 }.to_bits())
            .collect()
    } else {
        f32_components(vector_bytes).into_iter().map(|f| f.to_bits()).collect()
    }
}

/// What must be stored for a written vector: f32 codec = bits as written;
/// BQ = packed sign bits (bit set iff the sign bit of the component is clear), zero padding.
pub fn expected_vector_bytes(metric: Metric, written: &[u32]) -> Vec<u8> {
    if metric.is_bq() {
        let mut out = Vec::new();
        for chunk in written.chunks(64) {
            let mut word = 0u64;
            for (i, b) in chunk.iter().enumerate() {
                if b >> 31 == 0 {
                    word |= 1 << i;
                }
            }
            out.extend_from_slice(&word.to_ne_bytes());
        }
        out
    } else {
        written.iter().flat_map(|b| b.to_ne_bytes()).collect()
    }
}

// ------------------------------------------------------------------------------------------
// v0.4 layout (C17): kinds Item=0, Tree=1, Metadata=2; updated set = one bitmap at (idx,2,1)

pub const OLD_KIND_ITEM: u8 = 0;
pub const OLD_KIND_TREE: u8 = 1;
pub const OLD_KIND_METADATA: u8 = 2;

/// Transforms a current-layout dump of cosine indexes into the v0.4 layout.
pub fn to_v04(kv: &Kv, old_name: &str) -> Result<Kv, String> {
    let mut out: Kv = Vec::new();
    let mut updated: BTreeMap<u16, RoaringBitmap> = BTreeMap::new();
    for (k, v) in kv {
        let key = parse_key(k)?;
        match key.kind {
            KIND_METADATA => {
                if key.id == 0 {
                    let mut m = parse_meta(v)?;
                    m.name = old_name.to_string();
                    out.push((encode_key(key.index, OLD_KIND_METADATA, 0).to_vec(), encode_meta(&m)));
                }
                // version records did not exist
            }
            KIND_UPDATED => {
                updated.entry(key.index).or_default().insert(key.id);
            }
            KIND_TREE => {
                let mut v = v.clone();
                if v.first() == Some(&2) {
                    for off in [1usize, 6usize] {
                        v[off] = match v[off] {
                            KIND_ITEM => OLD_KIND_ITEM,
                            KIND_TREE => OLD_KIND_TREE,
                            other => return Err(format!("split child kind {other}")),
                        };
                    }
                }
                out.push((encode_key(key.index, OLD_KIND_TREE, key.id).to_vec(), v));
            }
            KIND_ITEM => {
                out.push((encode_key(key.index, OLD_KIND_ITEM, key.id).to_vec(), v.clone()));
            }
            _ => unreachable!(),
        }
    }
    for (idx, bm) in updated {
        let mut bytes = Vec::new();
        bm.serialize_into(&mut bytes).unwrap();
        out.push((encode_key(idx, OLD_KIND_METADATA, 1).to_vec(), bytes));
    }
    out.sort();
    Ok(out)
}
