//! C03 — the query-option lattice (filled in by c03).

use heed::RoTxn;

use crate::common::RawDb;
use crate::explore::Worker;
use crate::hist::{HState, HistCfg};
use crate::layout::DIndex;
use crate::oracle::Fail;

pub fn query_lattice(
    _cfg: &HistCfg,
    _db: RawDb,
    _rtxn: &RoTxn,
    _st: &HState,
    _ix: &DIndex,
    _w: &mut Worker,
) -> Result<(), Fail> {
    Ok(())
}
