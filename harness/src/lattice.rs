//! C03 — the query-option lattice: count x search_k x oversampling x candidates x query,
//! evaluated on one read transaction per built state.

use std::collections::BTreeMap;

use heed::RoTxn;
use roaring::RoaringBitmap;

use crate::common::{arroy_db, catch, floats_of, Metric, RawDb};
use crate::explore::Worker;
use crate::hist::{query, HState, HistCfg};
use crate::layout::DIndex;
use crate::oracle::{check_result, larger_is_nearer, Exactness, Fail};
use crate::with_metric;

#[derive(Clone, Debug)]
enum Q {
    Item(u32),
    Vector(Vec<u32>),
}

fn budget(count: usize, trees: usize, search_k: Option<usize>, oversampling: Option<usize>, metric: Metric) -> u128 {
    // the documented budget, in unbounded arithmetic
    let base: u128 = match search_k {
        Some(k) => k as u128,
        None => count as u128 * trees as u128,
    };
    let o: u128 = match oversampling {
        Some(o) => o as u128,
        None => metric.default_oversampling() as u128,
    };
    base.saturating_mul(o).min(usize::MAX as u128)
}

pub fn query_lattice(
    cfg: &HistCfg,
    db: RawDb,
    rtxn: &RoTxn,
    st: &HState,
    ix: &DIndex,
    w: &mut Worker,
) -> Result<(), Fail> {
    let model = &st.model.items;
    let n = model.len();
    let trees = ix.meta.as_ref().map_or(0, |m| m.roots.len());
    let thorough = std::env::var("VERIF_TIER_INTERNAL").map_or(false, |t| t == "thorough");

    let mut counts: Vec<usize> = vec![0, 1, 2, n, n + 1, 1usize << 63, usize::MAX];
    if thorough {
        counts.extend([1usize << 32, (1usize << 63) - 1]);
    }
    counts.sort();
    counts.dedup();
    let mut sks: Vec<Option<usize>> =
        vec![None, Some(1), Some(2), Some(3), Some(5), Some(n.max(1)), Some((n * trees).max(1)), Some(usize::MAX)];
    sks.dedup();
    let overs: Vec<Option<usize>> = vec![None, Some(1), Some(2), Some(usize::MAX)];

    // candidate filters
    let ids: Vec<u32> = model.keys().copied().collect();
    let all: RoaringBitmap = ids.iter().copied().collect();
    let mut filters: Vec<(&'static str, Option<RoaringBitmap>)> = vec![
        ("none", None),
        ("empty", Some(RoaringBitmap::new())),
        ("disjoint", Some(RoaringBitmap::from_iter([5u32, 77, 4_000_000_000].into_iter().filter(|x| !all.contains(*x))))),
        ("lower-half", Some(ids.iter().copied().take(n / 2).collect())),
        ("all", Some(all.clone())),
        ("superset", Some(&all | RoaringBitmap::from_iter([5u32, 9, 4_000_000_000]))),
    ];
    if thorough {
        for id in &ids {
            filters.push(("single", Some(RoaringBitmap::from_iter([*id]))));
        }
    } else if let Some(id) = ids.last() {
        filters.push(("single", Some(RoaringBitmap::from_iter([*id]))));
    }

    // queries: every stored id by item, its vector by vector, one unstored vector, one unknown id
    let mut queries: Vec<Q> = Vec::new();
    for (id, v) in model {
        queries.push(Q::Item(*id));
        queries.push(Q::Vector(v.clone()));
    }
    let unstored = cfg.menu.iter().flatten().find(|v| !model.values().any(|m| m == *v)).cloned();
    if let Some(u) = unstored {
        queries.push(Q::Vector(u));
    }
    let unknown_id = (0u32..).find(|i| !model.contains_key(i)).unwrap();

    let desc = larger_is_nearer(cfg.metric);

    with_metric!(cfg.metric, D => {
        let reader = match catch(|| arroy::Reader::<D>::open(rtxn, cfg.index, arroy_db::<D>(db))) {
            Ok(Ok(r)) => r,
            Ok(Err(e)) => return Err(("L/open-failed".into(), e.to_string())),
            Err(p) => return Err(("L/open-panicked".into(), p.message)),
        };
        let run = |q: &Q, count: usize, sk: Option<usize>, ov: Option<usize>, f: Option<&RoaringBitmap>| -> Result<Vec<(u32, f32)>, Fail> {
            let what = || format!("nns({count}) search_k={sk:?} oversampling={ov:?} candidates={:?} query={q:?}", f.map(|b| b.iter().collect::<Vec<_>>()));
            let fv;
            let r = match q {
                Q::Item(id) => query::<D>(&reader, rtxn, Some(*id), None, count, sk, ov, f),
                Q::Vector(v) => {
                    fv = floats_of(v);
                    query::<D>(&reader, rtxn, None, Some(&fv), count, sk, ov, f)
                }
            };
            match r {
                Ok(Some(v)) => Ok(v),
                Ok(None) => Err(("L/none-for-stored-id".into(), format!("{}: Ok(None)", what()))),
                Err(e) => {
                    let kind = if e.starts_with("panic") { "L/query-panicked" } else { "L/query-failed" };
                    Err((kind.into(), format!("{}: {e}", what())))
                }
            }
        };

        // unknown id => Ok(None), for a few option cells
        for &count in &[0usize, 1, n + 1] {
            match query::<D>(&reader, rtxn, Some(unknown_id), None, count, None, None, None) {
                Ok(None) => {}
                other => return Err(("L/unknown-id".into(), format!("nns({count}).by_item({unknown_id}) on an unknown id returned {other:?}, expected Ok(None)"))),
            }
            w.count("lattice_cells", 1);
        }

        for (fname, filter) in &filters {
            let f = filter.as_ref();
            for q in &queries {
                let qbits: Vec<u32> = match q {
                    Q::Item(id) => model[id].clone(),
                    Q::Vector(v) => v.clone(),
                };
                for &count in &counts {
                    // all cells of this (filter, query, count), keyed by documented budget
                    let mut by_budget: BTreeMap<u128, Vec<(u32, f32)>> = BTreeMap::new();
                    for &ov in &overs {
                        for &sk in &sks {
                            let b = budget(count, trees, sk, ov, cfg.metric);
                            if sk.is_none() && count == 0 {
                                // count = 0: the default budget is 0, nothing to compare with
                            }
                            let res = run(q, count, sk, ov, f)?;
                            w.count("lattice_cells", 1);
                            let mode = if b == usize::MAX as u128 { Exactness::Exact } else { Exactness::WellFormed };
                            check_result(cfg.metric, cfg.dim, model, &qbits, count, f, &res, mode, true)
                                .map_err(|(c, m)| (c.replace("X/", "L/"), format!("nns({count}) search_k={sk:?} oversampling={ov:?} candidates={fname} query={q:?} (documented budget {b}): {m}")))?;
                            match by_budget.get(&b) {
                                Some(prev) => {
                                    // same documented budget => same answer (covers "unset = count x trees x default oversampling")
                                    if !same_list(prev, &res) {
                                        return Err((
                                            "L/budget-equivalence".into(),
                                            format!("nns({count}) candidates={fname} query={q:?}: two option cells with the same documented budget {b} disagree: {prev:?} vs {res:?} (search_k={sk:?} oversampling={ov:?}, {trees} trees)"),
                                        ));
                                    }
                                }
                                None => {
                                    by_budget.insert(b, res);
                                }
                            }
                        }
                    }
                    // monotonicity along the budget chain
                    let chain: Vec<(&u128, &Vec<(u32, f32)>)> = by_budget.iter().collect();
                    for pair in chain.windows(2) {
                        let (b1, r1) = pair[0];
                        let (b2, r2) = pair[1];
                        if r2.len() < r1.len() {
                            return Err((
                                "L/budget-shortens".into(),
                                format!("nns({count}) candidates={fname} query={q:?}: budget {b1} gives {} results, larger budget {b2} only {}", r1.len(), r2.len()),
                            ));
                        }
                        for (j, (a, b)) in r1.iter().zip(r2.iter()).enumerate() {
                            let worse = if desc { b.1 < a.1 } else { b.1 > a.1 };
                            if worse {
                                return Err((
                                    "L/budget-worsens-rank".into(),
                                    format!("nns({count}) candidates={fname} query={q:?}: rank {j} is {a:?} with budget {b1} but {b:?} with larger budget {b2}"),
                                ));
                            }
                        }
                    }
                    w.count("lattice_chains", 1);
                }
            }
            // by_item(i) == by_vector(vector(i)) for every option cell of a reduced menu
            for (id, v) in model {
                let fv = floats_of(v);
                for &count in &[1usize, n, n + 1] {
                    for &sk in &[None, Some(1usize), Some(usize::MAX)] {
                        let a = run(&Q::Item(*id), count, sk, None, f)?;
                        let b = match query::<D>(&reader, rtxn, None, Some(&fv), count, sk, None, f) {
                            Ok(Some(b)) => b,
                            other => return Err(("L/query-failed".into(), format!("{other:?}"))),
                        };
                        w.count("lattice_cells", 2);
                        if !same_list(&a, &b) {
                            return Err((
                                "L/item-vs-vector".into(),
                                format!("nns({count}) search_k={sk:?} candidates={fname}: by_item({id}) = {a:?} but by_vector(its vector) = {b:?}"),
                            ));
                        }
                    }
                }
            }
        }
        w.count("lattice_states", 1);
        Ok(())
    })
}

fn same_list(a: &[(u32, f32)], b: &[(u32, f32)]) -> bool {
    a.len() == b.len() && a.iter().zip(b).all(|(x, y)| x.0 == y.0 && x.1.to_bits() == y.1.to_bits())
}
