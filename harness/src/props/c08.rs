//! C08 — writers are atomic and readers keep a consistent snapshot (engine E2).
//!
//! A writer participant runs a scripted history of nine transactions (six commits — one of items
//! only, one of a build only, one of an overwrite without a build —, two aborts after a successful
//! build, one abort after a cancelled build); it yields before every
//! API call, at every poll of the cancel callback and every progress call inside each build,
//! and around commit / abort. Reader participants open a snapshot at one enumerated yield
//! point and re-observe it at every later one.

use std::collections::BTreeMap;
use std::sync::atomic::{AtomicU64, AtomicUsize, Ordering};
use std::sync::{Arc, Mutex};
use std::time::Duration;

use heed::RoTxn;
use rand::rngs::StdRng;
use rand::SeedableRng;
use serde_json::json;

use crate::common::{arroy_db, catch, dump, floats_of, fresh_scratch_dir, Kv, Metric, RawDb, Report, Tier, Violation};
use crate::exec::ErrKind;
use crate::layout::decode_index;
use crate::oracle::{self, check_result, Exactness};
use crate::sched::{Sched, Status};

type D = arroy::distances::Euclidean;
const METRIC: Metric = Metric::Euclidean;
const DIM: usize = 2;
const WRITER: usize = 0;

fn vec_for(id: u32, version: u32) -> Vec<u32> {
    let a = ((id.wrapping_mul(3).wrapping_add(version * 5)) % 7) as f32 - 3.0;
    let b = ((id.wrapping_mul(5).wrapping_add(version)) % 5) as f32 - 2.0;
    vec![a.to_bits(), (if a == 0.0 && b == 0.0 { 1.0 } else { b }).to_bits()]
}

/// The model after each committed version (index 0 = before the first commit). Version 1 is
/// committed *unbuilt* (items only); the writer then builds and aborts, and builds again and
/// commits (version 2) without touching an item; version 4 overwrites the largest id and is
/// committed without a build (*stale*: it must be refused with NeedBuild).
fn models() -> Vec<BTreeMap<u32, Vec<u32>>> {
    let mut out = vec![BTreeMap::new()];
    let mut m = BTreeMap::new();
    for id in (0..6u32).chain([u32::MAX]) {
        m.insert(id, vec_for(id, 1));
    }
    out.push(m.clone()); // v1: items, not built
    out.push(m.clone()); // v2: the same items, built
    m.remove(&1);
    out.push(m.clone()); // v3: one deletion only (buckets rewritten in place under the same node ids)
    m.insert(u32::MAX, vec_for(u32::MAX, 4));
    out.push(m.clone()); // v4: the largest id overwritten, committed without a build
    m.insert(2, vec_for(2, 2));
    m.insert(7, vec_for(7, 2));
    out.push(m.clone()); // v5
    // (aborted): add 8 ; (cancelled, aborted): add 9
    m.insert(10, vec_for(10, 3));
    m.remove(&3);
    m.remove(&5); // overwritten, then deleted in the same round
    out.push(m); // v6
    out
}

#[derive(Clone, Copy, PartialEq, Debug)]
enum VState {
    /// no metadata: Reader::open = MissingMetadata
    Unbuilt,
    Built,
    /// built once, items changed since: Reader::open = NeedBuild
    Stale,
}

fn version_state(version: usize) -> VState {
    match version {
        0 | 1 => VState::Unbuilt,
        4 => VState::Stale,
        _ => VState::Built,
    }
}

fn is_built(version: usize) -> bool {
    version_state(version) == VState::Built
}

struct Env2 {
    dir: std::path::PathBuf,
    env: crate::common::Env,
    db: RawDb,
}

impl Env2 {
    fn new() -> Env2 {
        let dir = fresh_scratch_dir("c08");
        let env = unsafe { heed::EnvOpenOptions::new().read_txn_without_tls().map_size(64 << 20).max_readers(2048).open(&dir) }.unwrap();
        let mut w = env.write_txn().unwrap();
        let db: RawDb = env.create_database(&mut w, None).unwrap();
        w.commit().unwrap();
        Env2 { dir, env, db }
    }
}

impl Drop for Env2 {
    fn drop(&mut self) {
        let _ = std::fs::remove_dir_all(&self.dir);
    }
}

/// The writer's script. `y` is called at every yield point; `commits` counts completed commits.
/// Returns the raw dump after each commit.
fn writer_script(env: &crate::common::Env, db: RawDb, y: &(dyn Fn(&'static str) + Sync), commits: &AtomicUsize) -> Result<Vec<Kv>, String> {
    let mut dumps = Vec::new();
    let adb = arroy_db::<D>(db);
    let writer = arroy::Writer::<D>::new(adb, 0, DIM);
    let build = |wtxn: &mut heed::RwTxn, n_trees: usize, seed: u64, cancel_at: Option<u64>| -> Result<(), arroy::Error> {
        let polls = AtomicU64::new(0);
        let mut rng = StdRng::seed_from_u64(seed);
        let mut b = writer.builder(&mut rng);
        b.n_trees(n_trees).split_after(2);
        b.cancel(|| {
            y("cancel-poll");
            let n = polls.fetch_add(1, Ordering::Relaxed);
            cancel_at.map_or(false, |c| n >= c)
        });
        b.progress(|_| y("progress"));
        b.build(wtxn)
    };
    let e = |x: arroy::Error| x.to_string();
    let he = |x: heed::Error| x.to_string();
    // v1: items committed without a build
    y("begin");
    let mut wtxn = env.write_txn().map_err(he)?;
    for id in (0..6u32).chain([u32::MAX]) {
        y("add");
        writer.add_item(&mut wtxn, id, &floats_of(&vec_for(id, 1))).map_err(e)?;
    }
    y("commit");
    wtxn.commit().map_err(he)?;
    commits.fetch_add(1, Ordering::SeqCst);
    y("committed");
    {
        let r = env.read_txn().map_err(he)?;
        dumps.push(dump(db, &r));
    }
    // a successful build that is aborted, with the same Writer ...
    y("begin");
    let mut wtxn = env.write_txn().map_err(he)?;
    y("build");
    build(&mut wtxn, 1, 11, None).map_err(e)?;
    y("abort");
    wtxn.abort();
    y("aborted");
    // ... then the same build again, committed (v2), without any item operation in between
    y("begin");
    let mut wtxn = env.write_txn().map_err(he)?;
    y("build");
    build(&mut wtxn, 1, 11, None).map_err(e)?;
    y("commit");
    wtxn.commit().map_err(he)?;
    commits.fetch_add(1, Ordering::SeqCst);
    y("committed");
    {
        let r = env.read_txn().map_err(he)?;
        dumps.push(dump(db, &r));
    }
    // v3: a single deletion
    y("begin");
    let mut wtxn = env.write_txn().map_err(he)?;
    y("del");
    writer.del_item(&mut wtxn, 1).map_err(e)?;
    y("build");
    build(&mut wtxn, 1, 16, None).map_err(e)?;
    y("commit");
    wtxn.commit().map_err(he)?;
    commits.fetch_add(1, Ordering::SeqCst);
    y("committed");
    {
        let r = env.read_txn().map_err(he)?;
        dumps.push(dump(db, &r));
    }
    // v4: the largest id overwritten and committed without a build (a stale version)
    y("begin");
    let mut wtxn = env.write_txn().map_err(he)?;
    y("add");
    writer.add_item(&mut wtxn, u32::MAX, &floats_of(&vec_for(u32::MAX, 4))).map_err(e)?;
    y("commit");
    wtxn.commit().map_err(he)?;
    commits.fetch_add(1, Ordering::SeqCst);
    y("committed");
    {
        let r = env.read_txn().map_err(he)?;
        dumps.push(dump(db, &r));
    }
    // v5
    y("begin");
    let mut wtxn = env.write_txn().map_err(he)?;
    y("add");
    writer.add_item(&mut wtxn, 2, &floats_of(&vec_for(2, 2))).map_err(e)?;
    y("add");
    writer.add_item(&mut wtxn, 7, &floats_of(&vec_for(7, 2))).map_err(e)?;
    y("build");
    build(&mut wtxn, 1, 12, None).map_err(e)?;
    y("commit");
    wtxn.commit().map_err(he)?;
    commits.fetch_add(1, Ordering::SeqCst);
    y("committed");
    {
        let r = env.read_txn().map_err(he)?;
        dumps.push(dump(db, &r));
    }
    // t3: a successful build, then abort
    y("begin");
    let mut wtxn = env.write_txn().map_err(he)?;
    y("add");
    writer.add_item(&mut wtxn, 8, &floats_of(&vec_for(8, 9))).map_err(e)?;
    y("del");
    writer.del_item(&mut wtxn, 0).map_err(e)?;
    y("build");
    build(&mut wtxn, 3, 13, None).map_err(e)?;
    y("abort");
    wtxn.abort();
    y("aborted");
    // t4: a cancelled build, then abort
    y("begin");
    let mut wtxn = env.write_txn().map_err(he)?;
    y("add");
    writer.add_item(&mut wtxn, 9, &floats_of(&vec_for(9, 9))).map_err(e)?;
    y("clear-other");
    writer.del_item(&mut wtxn, 4).map_err(e)?;
    y("build");
    match build(&mut wtxn, 2, 14, Some(25)) {
        Err(arroy::Error::BuildCancelled) => {}
        other => return Err(format!("the cancelled build returned {:?}", other.map_err(|x| x.to_string()))),
    }
    y("abort");
    wtxn.abort();
    y("aborted");
    // v6
    y("begin");
    let mut wtxn = env.write_txn().map_err(he)?;
    y("add");
    writer.add_item(&mut wtxn, 10, &floats_of(&vec_for(10, 3))).map_err(e)?;
    y("del");
    writer.del_item(&mut wtxn, 3).map_err(e)?;
    // an indexed item overwritten and then deleted in the same round
    y("add");
    writer.add_item(&mut wtxn, 5, &floats_of(&vec_for(5, 6))).map_err(e)?;
    y("del");
    writer.del_item(&mut wtxn, 5).map_err(e)?;
    y("build");
    build(&mut wtxn, 3, 15, None).map_err(e)?;
    y("commit");
    wtxn.commit().map_err(he)?;
    commits.fetch_add(1, Ordering::SeqCst);
    y("committed");
    {
        let r = env.read_txn().map_err(he)?;
        dumps.push(dump(db, &r));
    }
    Ok(dumps)
}

/// What a reader must see on a snapshot of committed version `c`.
fn observe(db: RawDb, rtxn: &RoTxn, c: usize, refs: &[Kv], models: &[BTreeMap<u32, Vec<u32>>]) -> Result<Kv, (String, String)> {
    let got = dump(db, rtxn);
    if got != refs[c] {
        // which version does it look like, if any?
        let like: Vec<usize> = (0..refs.len()).filter(|v| refs[*v] == got).collect();
        return Err((
            "A/not-the-committed-version".into(),
            format!("a reader opened after {c} commits sees a database that is {} ({})",
                if like.is_empty() { "no committed version at all".to_string() } else { format!("version {like:?}") },
                crate::txnsys::diff_summary(&refs[c], &got)),
        ));
    }
    let model = &models[c];
    let r = catch(|| -> Result<(), (String, String)> {
        let open = arroy::Reader::<D>::open(rtxn, 0, arroy_db::<D>(db));
        match version_state(c) {
            VState::Unbuilt => {
                return match open {
                    Err(arroy::Error::MissingMetadata(_)) => Ok(()),
                    other => Err(("A/open-unbuilt-version".into(), format!("open of version {c} (never built) = {:?}", other.map(|_| "Ok").map_err(|e| ErrKind::of(&e).tag())))),
                };
            }
            VState::Stale => {
                return match open {
                    Err(arroy::Error::NeedBuild(_)) => Ok(()),
                    other => Err(("A/open-stale-version".into(), format!("open of version {c} (items changed since its last build) = {:?}", other.map(|_| "Ok").map_err(|e| ErrKind::of(&e).tag())))),
                };
            }
            VState::Built => {}
        }
        let reader = open.map_err(|e| ("A/open-failed".to_string(), format!("version {c} does not open: {e}")))?;
        api_view(&reader, rtxn, c, model)
    });
    match r {
        Ok(Ok(())) => Ok(got),
        Ok(Err(e)) => Err(e),
        Err(p) => Err((format!("A/reader-panicked:{}", p.site()), format!("{}: {}", p.location, p.message))),
    }
}

/// What the public API must show through `reader` on a snapshot of built version `c`.
fn api_view(reader: &arroy::Reader<D>, rtxn: &RoTxn, c: usize, model: &BTreeMap<u32, Vec<u32>>) -> Result<(), (String, String)> {
    let ids: Vec<u32> = reader.item_ids().iter().collect();
    if ids != model.keys().copied().collect::<Vec<_>>() {
        return Err(("A/items".into(), format!("version {c}: Reader::item_ids = {ids:?}, committed model {:?}", model.keys().collect::<Vec<_>>())));
    }
    for (id, v) in model {
        let got = reader.item_vector(rtxn, *id).map_err(|e| ("A/api".to_string(), e.to_string()))?;
        if got.map(|x| crate::common::bits_of(&x)).as_ref() != Some(v) {
            return Err(("A/vector".into(), format!("version {c}: item_vector({id}) is not the committed one")));
        }
    }
    let n = model.len();
    for q in [vec_for(0, 1), vec_for(7, 2), vec_for(10, 3)] {
        let res = crate::hist::query::<D>(reader, rtxn, None, Some(&floats_of(&q)), n, Some(usize::MAX), None, None)
            .map_err(|e| ("A/query-failed".to_string(), e))?
            .unwrap();
        if std::env::var("VERIF_DEBUG_C08").is_ok() {
            eprintln!("api_view version {c}: exact query -> {:?}", res.iter().map(|x| x.0).collect::<Vec<_>>());
        }
        check_result(METRIC, DIM, model, &q, n, None, &res, Exactness::Exact, true).map_err(|(c2, m)| (format!("A/search:{c2}"), format!("version {c}: {m}")))?;
        // a small budget too: it walks the tree nodes of this snapshot only
        let res = crate::hist::query::<D>(reader, rtxn, None, Some(&floats_of(&q)), n, Some(2), None, None)
            .map_err(|e| ("A/query-failed".to_string(), e))?
            .unwrap();
        check_result(METRIC, DIM, model, &q, n, None, &res, Exactness::WellFormed, true).map_err(|(c2, m)| (format!("A/search:{c2}"), format!("version {c}, budget 2: {m}")))?;
    }
    Ok(())
}

#[derive(Clone, Copy, PartialEq, Debug)]
enum Cmd {
    Open,
    Observe,
    Reopen,
    Quit,
}

struct Exec {
    yield_points: usize,
    observations: u64,
}

/// One schedule: readers `k` open their snapshot when the writer is at yield point `opens[k]`;
/// every open reader re-observes at every later yield point; at the end each drops, reopens, observes.
fn run_schedule(opens: &[usize], refs: &[Kv], models: &[BTreeMap<u32, Vec<u32>>]) -> Result<Exec, Violation> {
    let n_readers = opens.len();
    let e2 = Env2::new();
    let sched = Sched::new(1 + n_readers);
    let commits = AtomicUsize::new(0);
    let cmds: Vec<Mutex<Cmd>> = (0..n_readers).map(|_| Mutex::new(Cmd::Quit)).collect();
    let failure: Mutex<Option<(String, String)>> = Mutex::new(None);
    let observations = AtomicU64::new(0);
    let mut yield_points = 0usize;
    let mut labels: Vec<&'static str> = Vec::new();
    let writer_result: Mutex<Option<Result<Vec<Kv>, String>>> = Mutex::new(None);
    std::thread::scope(|scope| {
        // writer
        {
            let sched = sched.clone();
            let env = e2.env.clone();
            let db = e2.db;
            let commits = &commits;
            let writer_result = &writer_result;
            scope.spawn(move || {
                let s2 = sched.clone();
                let y = move |label: &'static str| s2.yield_point(WRITER, label, 0);
                let r = crate::explore::in_single_thread_pool(|| catch(|| writer_script(&env, db, &y, commits)));
                *writer_result.lock().unwrap() = Some(match r {
                    Ok(x) => x,
                    Err(p) => Err(format!("the writer panicked at {}: {}", p.location, p.message)),
                });
                sched.finish(WRITER);
            });
        }
        // readers
        for k in 0..n_readers {
            let sched = sched.clone();
            let env = e2.env.clone();
            let db = e2.db;
            let cmds = &cmds;
            let commits = &commits;
            let failure = &failure;
            let observations = &observations;
            scope.spawn(move || {
                let me = 1 + k;
                let mut rtxn: Option<heed::RoTxn<heed::WithoutTls>> = None;
                let mut version = 0usize;
                let mut first: Option<Kv> = None;
                loop {
                    sched.yield_point(me, "reader-idle", 0);
                    let cmd = *cmds[k].lock().unwrap();
                    let mut fail = |c: String, m: String| {
                        let mut f = failure.lock().unwrap();
                        if f.is_none() {
                            *f = Some((c, m));
                        }
                    };
                    match cmd {
                        Cmd::Quit => break,
                        Cmd::Open | Cmd::Reopen => {
                            rtxn = None;
                            let t = env.read_txn().expect("read txn");
                            version = commits.load(Ordering::SeqCst);
                            observations.fetch_add(1, Ordering::Relaxed);
                            match observe(db, &t, version, refs, models) {
                                Ok(d) => first = Some(d),
                                Err((c, m)) => fail(c, format!("reader {k} ({cmd:?}): {m}")),
                            }
                            rtxn = Some(t);
                        }
                        Cmd::Observe => {
                            if let Some(t) = &rtxn {
                                observations.fetch_add(1, Ordering::Relaxed);
                                match observe(db, t, version, refs, models) {
                                    Ok(d) => {
                                        if Some(&d) != first.as_ref() {
                                            fail("A/snapshot-moved".into(), format!("reader {k}: the snapshot changed while it was held"));
                                        }
                                    }
                                    Err((c, m)) => fail(c.replace("A/", "A/held:"), format!("reader {k} re-observing its snapshot of version {version}: {m}")),
                                }
                            }
                        }
                    }
                }
                drop(rtxn);
                sched.finish(me);
            });
        }
        // controller
        let timeout = Duration::from_secs(180);
        let mut opened = vec![false; n_readers];
        let all = 1 + n_readers;
        let step_reader = |k: usize, cmd: Cmd| -> bool {
            *cmds[k].lock().unwrap() = cmd;
            sched.release(1 + k);
            sched.quiesce(all, timeout).is_some()
        };
        let mut ok = sched.quiesce(all, timeout).is_some();
        while ok {
            let st = sched.statuses();
            let writer_label = match &st[WRITER] {
                Status::Blocked(l, _) => Some(*l),
                _ => None,
            };
            // readers whose opening point is the current writer position
            for k in 0..n_readers {
                if !opened[k] && opens[k] == yield_points {
                    opened[k] = true;
                    ok &= step_reader(k, Cmd::Open);
                } else if opened[k] {
                    ok &= step_reader(k, Cmd::Observe);
                }
            }
            match writer_label {
                Some(l) => {
                    labels.push(l);
                    yield_points += 1;
                    sched.release(WRITER);
                    ok &= sched.quiesce(all, timeout).is_some();
                }
                None => break, // the writer is done
            }
            if failure.lock().unwrap().is_some() {
                break;
            }
        }
        // readers that never opened (opening point beyond the end) open now; then everybody reopens
        for k in 0..n_readers {
            if ok && failure.lock().unwrap().is_none() {
                if !opened[k] {
                    ok &= step_reader(k, Cmd::Open);
                }
                ok &= step_reader(k, Cmd::Reopen);
            }
        }
        for k in 0..n_readers {
            *cmds[k].lock().unwrap() = Cmd::Quit;
        }
        sched.free_run();
        if !ok {
            let mut f = failure.lock().unwrap();
            if f.is_none() {
                *f = Some(("A/deadlock".into(), format!("no participant made progress for 180 s (statuses {:?}); reader/writer deadlock", sched.statuses())));
            }
        }
    });
    let schedule = json!({"engine": "snapshot", "reader_opens_at_writer_yield_point": opens, "writer_yield_labels_seen": labels.len()});
    if let Some((c, m)) = failure.into_inner().unwrap() {
        return Err(Violation { signature: c, what: format!("readers opening at writer yield points {opens:?} (of {yield_points}): {m}"), replay: schedule });
    }
    match writer_result.into_inner().unwrap() {
        Some(Ok(d)) => {
            if d.as_slice() != &refs[1..] {
                return Err(Violation { signature: "A/writer-depends-on-readers".into(), what: format!("with readers opening at {opens:?} the committed versions differ from the uninterrupted run"), replay: schedule });
            }
        }
        Some(Err(e)) => return Err(Violation { signature: "A/writer-failed".into(), what: format!("with readers opening at {opens:?} the writer failed: {e}"), replay: schedule }),
        None => return Err(Violation { signature: "A/writer-lost".into(), what: "the writer thread left no result".into(), replay: schedule }),
    }
    Ok(Exec { yield_points, observations: observations.load(Ordering::Relaxed) })
}

/// One reader thread that holds TWO snapshots and their `Reader` objects at the same time:
/// it opens the first when the writer is at yield point `a`, the second at `b >= a`, and from
/// then on queries the newer one and then the older one at every writer yield point. Anything
/// the crate keeps outside the transaction (per thread or per process) and refreshes at open
/// time is exposed when the older `Reader` is used after the newer one.
fn run_two_snapshots(a: usize, b: usize, refs: &[Kv], models: &[BTreeMap<u32, Vec<u32>>]) -> Result<Exec, Violation> {
    let e2 = Env2::new();
    let sched = Sched::new(2);
    let commits = AtomicUsize::new(0);
    let failure: Mutex<Option<(String, String)>> = Mutex::new(None);
    let observations = AtomicU64::new(0);
    let mut yield_points = 0usize;
    let go: Mutex<Cmd> = Mutex::new(Cmd::Quit);
    std::thread::scope(|scope| {
        {
            let sched = sched.clone();
            let env = e2.env.clone();
            let db = e2.db;
            let commits = &commits;
            scope.spawn(move || {
                let s2 = sched.clone();
                let y = move |label: &'static str| s2.yield_point(WRITER, label, 0);
                let _ = crate::explore::in_single_thread_pool(|| catch(|| writer_script(&env, db, &y, commits)));
                sched.finish(WRITER);
            });
        }
        {
            let sched = sched.clone();
            let env = e2.env.clone();
            let db = e2.db;
            let commits = &commits;
            let failure = &failure;
            let observations = &observations;
            let go = &go;
            scope.spawn(move || {
                let fail = |c: String, m: String| {
                    let mut f = failure.lock().unwrap();
                    if f.is_none() {
                        *f = Some((c, m));
                    }
                };
                // wait for "open the first snapshot"
                sched.yield_point(1, "reader-idle", 0);
                if *go.lock().unwrap() == Cmd::Quit {
                    sched.finish(1);
                    return;
                }
                let t1 = env.read_txn().expect("read txn");
                let v1 = commits.load(Ordering::SeqCst);
                let r1 = arroy::Reader::<D>::open(&t1, 0, arroy_db::<D>(db)).ok();
                let check = |label: &str, reader: &Option<arroy::Reader<D>>, t: &heed::RoTxn<heed::WithoutTls>, v: usize| {
                    observations.fetch_add(1, Ordering::Relaxed);
                    if std::env::var("VERIF_DEBUG_C08").is_ok() {
                        eprintln!("two-snapshots a={a} b={b}: {label} version {v} reader={}", reader.is_some());
                    }
                    if dump(db, t) != refs[v] {
                        fail("A/held:not-the-committed-version".into(), format!("{label} snapshot of version {v}: the raw content changed while it was held"));
                    }
                    match (reader, is_built(v)) {
                        (Some(r), true) => {
                            let res = catch(|| api_view(r, t, v, &models[v]));
                            match res {
                                Ok(Ok(())) => {}
                                Ok(Err((c, m))) => fail(c.replace("A/", "A/two-snapshots:"), format!("{label} Reader (version {v}) used after another snapshot was opened on the same thread: {m}")),
                                Err(p) => fail(format!("A/two-snapshots:panicked:{}", p.site()), format!("{label} Reader (version {v}): panic at {}: {}", p.location, p.message)),
                            }
                        }
                        (None, false) => {}
                        (Some(_), false) => fail("A/open-unbuilt-version".into(), format!("version {v} is not built but opened")),
                        (None, true) => fail("A/open-failed".into(), format!("version {v} did not open")),
                    }
                };
                check("first", &r1, &t1, v1);
                sched.yield_point(1, "reader-idle", 0);
                if *go.lock().unwrap() == Cmd::Quit {
                    sched.finish(1);
                    return;
                }
                let t2 = env.read_txn().expect("read txn");
                let v2 = commits.load(Ordering::SeqCst);
                let r2 = arroy::Reader::<D>::open(&t2, 0, arroy_db::<D>(db)).ok();
                loop {
                    check("second", &r2, &t2, v2);
                    check("first", &r1, &t1, v1);
                    sched.yield_point(1, "reader-idle", 0);
                    if *go.lock().unwrap() == Cmd::Quit {
                        break;
                    }
                }
                sched.finish(1);
            });
        }
        let timeout = Duration::from_secs(180);
        let mut ok = sched.quiesce(2, timeout).is_some();
        let mut stage = 0; // 0 = nothing open, 1 = first open, 2 = both open
        let step_reader = |cmd: Cmd| -> bool {
            *go.lock().unwrap() = cmd;
            sched.release(1);
            sched.quiesce(2, timeout).is_some()
        };
        while ok {
            let st = sched.statuses();
            if stage == 0 && yield_points == a {
                ok &= step_reader(Cmd::Open);
                stage = 1;
            }
            if stage == 1 && yield_points == b {
                ok &= step_reader(Cmd::Open);
                stage = 2;
            } else if stage == 2 {
                ok &= step_reader(Cmd::Observe);
            }
            match &st[WRITER] {
                Status::Blocked(..) => {
                    yield_points += 1;
                    sched.release(WRITER);
                    ok &= sched.quiesce(2, timeout).is_some();
                }
                _ => break,
            }
            if failure.lock().unwrap().is_some() {
                break;
            }
        }
        *go.lock().unwrap() = Cmd::Quit;
        sched.free_run();
        if !ok {
            let mut f = failure.lock().unwrap();
            if f.is_none() {
                *f = Some(("A/deadlock".into(), "no participant made progress for 180 s".into()));
            }
        }
    });
    if let Some((c, m)) = failure.into_inner().unwrap() {
        return Err(Violation {
            signature: c,
            what: format!("one thread holding two snapshots opened at writer yield points {a} and {b}: {m}"),
            replay: json!({"engine": "snapshot", "two_snapshots_on_one_thread": [a, b]}),
        });
    }
    Ok(Exec { yield_points, observations: observations.load(Ordering::Relaxed) })
}

pub fn run(tier: Tier) -> i32 {
    use rayon::prelude::*;
    let mut report = Report::new("C08", tier, "model_checking");
    report.assume("LMDB is trusted for what happens inside mdb_txn_begin / commit: yield points are at arroy-visible boundaries (API calls, cancel polls, progress calls, before/after commit and abort)");
    report.assume("one entity runs at a time (token passing), so 'commits completed when the reader opened' is known exactly");
    let models = models();
    // reference: the uninterrupted run
    let e0 = Env2::new();
    let commits = AtomicUsize::new(0);
    let count = AtomicUsize::new(0);
    let y = |_l: &'static str| {
        count.fetch_add(1, Ordering::Relaxed);
    };
    let refs_tail = crate::explore::in_single_thread_pool(|| catch(|| writer_script(&e0.env, e0.db, &y, &commits)));
    let refs_tail = match refs_tail {
        Ok(r) => r,
        Err(p) => Err(format!("the writer panicked at {}: {}", p.location, p.message)),
    };
    let refs_tail = match refs_tail {
        Ok(r) => r,
        Err(e) => {
            report.add_violation(Violation::new("A/writer-failed", format!("the uninterrupted writer script failed: {e}")));
            return report.finish();
        }
    };
    let w = count.load(Ordering::Relaxed);
    let mut refs: Vec<Kv> = vec![Vec::new()];
    refs.extend(refs_tail);
    // the committed versions themselves are valid indexes (S)
    for (c, kv) in refs.iter().enumerate().skip(1).filter(|(c, _)| is_built(*c)) {
        let ok = decode_index(kv, 0, METRIC, DIM).map_err(|e| ("F/undecodable".to_string(), e)).and_then(|ix| {
            oracle::structure(&ix, &models[c].keys().copied().collect(), METRIC, DIM).map(|_| ())
        });
        if let Err((cl, m)) = ok {
            report.add_violation(Violation::new(format!("A/committed-version-invalid:{cl}"), format!("committed version {c}: {m}")));
        }
    }
    if std::env::var("VERIF_DEBUG_C08").is_ok() {
        for (c, kv) in refs.iter().enumerate().skip(2) {
            if let Ok(ix) = decode_index(kv, 0, METRIC, DIM) {
                eprintln!("version {c}: roots {:?}", ix.meta.as_ref().map(|m| m.roots.clone()));
                for (id, n) in &ix.trees {
                    match n {
                        crate::layout::TreeNode::Bucket(b) => eprintln!("   node {id}: bucket {:?}", b.iter().collect::<Vec<_>>()),
                        crate::layout::TreeNode::Split { left, right, .. } => eprintln!("   node {id}: split {left:?} {right:?}"),
                    }
                }
            }
        }
    }
    let after_abort = dump(e0.db, &e0.env.read_txn().unwrap());
    if after_abort != *refs.last().unwrap() {
        report.add_violation(Violation::new("A/abort-left-trace", "after the script the database is not the last committed version".to_string()));
    }
    drop(e0);
    report.cov("writer_yield_points", w as u64);
    let executions = AtomicU64::new(0);
    let observations = AtomicU64::new(0);
    let first: Mutex<Option<Violation>> = Mutex::new(None);
    let run_one = |opens: &[usize]| {
        if first.lock().unwrap().is_some() {
            return;
        }
        match run_schedule(opens, &refs, &models) {
            Ok(e) => {
                executions.fetch_add(1, Ordering::Relaxed);
                observations.fetch_add(e.observations, Ordering::Relaxed);
                if e.yield_points != w {
                    let mut f = first.lock().unwrap();
                    if f.is_none() {
                        *f = Some(Violation::new("A/writer-yield-count", format!("the writer passed {} yield points with readers at {opens:?}, {w} alone", e.yield_points)));
                    }
                }
            }
            Err(v) => {
                let mut f = first.lock().unwrap();
                if f.is_none() {
                    *f = Some(v);
                }
            }
        }
    };
    // (1) one reader, every opening point (it re-observes at every later point and reopens at the end):
    //     covers every placement of {open, re-observe, drop+reopen} among the writer's yield points
    (0..=w).into_par_iter().for_each(|i| run_one(&[i]));
    let one_reader = executions.load(Ordering::Relaxed);
    // (2) two readers
    let pairs: Vec<(usize, usize)> = match tier {
        Tier::Quick => {
            // every pair on a coarse grid of the writer's yield points plus all adjacent pairs around commits
            let step = (w / 24).max(1);
            let grid: Vec<usize> = (0..=w).step_by(step).collect();
            let mut p = Vec::new();
            for a in &grid {
                for b in &grid {
                    if a <= b {
                        p.push((*a, *b));
                    }
                }
            }
            p
        }
        Tier::Thorough => {
            let mut p = Vec::new();
            for a in 0..=w {
                for b in a..=w {
                    p.push((a, b));
                }
            }
            p
        }
    };
    pairs.par_iter().for_each(|(a, b)| run_one(&[*a, *b]));
    // (2b) one thread holding two snapshots (and their Reader objects) at once
    let step2 = if tier == Tier::Quick { (w / 16).max(1) } else { (w / 64).max(1) };
    let mut grid2: Vec<usize> = (0..=w).step_by(step2).collect();
    grid2.extend([w.saturating_sub(1), w]);
    grid2.sort();
    grid2.dedup();
    let mut two: Vec<(usize, usize)> = Vec::new();
    for a in &grid2 {
        for b in &grid2 {
            if a <= b {
                two.push((*a, *b));
            }
        }
    }
    let two_done = AtomicU64::new(0);
    two.par_iter().for_each(|(a, b)| {
        if first.lock().unwrap().is_some() {
            return;
        }
        match run_two_snapshots(*a, *b, &refs, &models) {
            Ok(e) => {
                two_done.fetch_add(1, Ordering::Relaxed);
                executions.fetch_add(1, Ordering::Relaxed);
                observations.fetch_add(e.observations, Ordering::Relaxed);
            }
            Err(v) => {
                let mut f = first.lock().unwrap();
                if f.is_none() {
                    *f = Some(v);
                }
            }
        }
    });
    // (3) any number of readers: a new reader at every 4th yield point (every point in thorough), all held to the end
    let many: Vec<usize> = match tier {
        Tier::Quick => (0..=w).step_by(4).collect(),
        Tier::Thorough => (0..=w).collect(),
    };
    run_one(&many);
    if let Some(v) = first.into_inner().unwrap() {
        report.add_violation(v);
    }
    let ex = executions.load(Ordering::Relaxed);
    report.cov("states", observations.load(Ordering::Relaxed));
    report.cov("transitions", ex * w as u64);
    report.cov("traces_validated_against_impl", ex);
    report.cov("schedules", ex);
    report.cov("schedules_one_reader", one_reader);
    report.cov("schedules_two_readers", pairs.len() as u64);
    report.cov("schedules_two_snapshots_on_one_thread", two_done.load(Ordering::Relaxed));
    report.cov("many_readers_in_one_schedule", many.len() as u64);
    report.cov("reader_observations", observations.load(Ordering::Relaxed));
    report.cov("exhaustive", true);
    report.cov("oracle", "a reader opening when c commits have completed must see exactly committed version c: its raw dump through its own RoTxn equals byte for byte the reference dump of version c of the uninterrupted run (never a mixture), Reader::open fails with MissingMetadata for the versions never built (0, 1), with NeedBuild for the version committed after an overwrite without a build (4), and otherwise opens, item ids and vectors equal the committed model, exhaustive queries equal the brute-force model; a held snapshot never changes, whatever is written, built, committed or aborted meanwhile; after every abort a fresh snapshot equals the last committed version; the writer's committed versions do not depend on the readers");
    report.cov("bounds", json!({"writer": "8 transactions on one Writer: v1 items committed unbuilt, build then abort, the same build committed (v2), v3 one deletion+build+commit, v4 overwrite/add+build+commit, build then abort, cancelled build then abort, v5 add/delete+build(3 trees)+commit", "reader placements": "every opening point for one reader; pairs of opening points for two readers (grid in quick, all pairs in thorough); pairs of opening points for one thread holding two snapshots and their Reader objects; one schedule with a new reader at every (4th) yield point"}));
    report.sample(json!({"schedule": "reader opens at writer yield point 57 (inside the first build), re-observes at every later point, reopens at the end", "expected": "MissingMetadata and an empty dump for as long as the snapshot is held; version 3 after reopening"}));
    report.finish()
}
