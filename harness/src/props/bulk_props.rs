//! C14 (memory hint) and C20 (degenerate data): enumerated scenario families executed in the
//! forked workers of the explorer (one job per scenario; a worker that dies is reported with
//! the scenario that killed it). Termination is decided by a poll horizon, not by a clock:
//! the build polls its cancel callback in every loop, and a build that polls more than the
//! horizon is stopped and reported as non-terminating.

use std::collections::BTreeMap;
use std::time::Duration;

use serde_json::{json, Value};

use crate::common::{arroy_db, catch, floats_of, Dec, Enc, Metric, Report, Scratch, Tier, Violation, M7};
use crate::exec::{run_build, BuildOpts};
use crate::explore::{explore, record, Caps, Seen, Step, System, Worker};
use crate::layout::{decode_index, expected_vector_bytes};
use crate::oracle::{self, check_result, Exactness};
use crate::with_metric;

#[derive(Clone, Debug)]
pub struct Scenario {
    pub label: String,
    pub metric: Metric,
    pub dim: usize,
    /// round 1 population: (id, vector)
    pub items: Vec<(u32, Vec<u32>)>,
    /// round 2: ids to delete, items to add (after the first build)
    pub round2_del: Vec<u32>,
    pub round2_add: Vec<(u32, Vec<u32>)>,
    /// further rounds after the second one: (ids to delete, items to add), each followed by a build
    pub more_rounds: Vec<(Vec<u32>, Vec<(u32, Vec<u32>)>)>,
    pub n_trees: Option<usize>,
    pub split_after: Option<usize>,
    /// available_memory values to try (None = unset); the first one is the reference
    pub memories: Vec<Option<usize>>,
    pub seed: u64,
    /// judge reported distances (false for degenerate data)
    pub judge_distances: bool,
    /// absolute poll horizon, or 0 = 200 x the polls of the reference (unset) build
    pub horizon: u64,
}

impl Scenario {
    fn to_json(&self) -> Value {
        json!({
            "label": self.label, "metric": self.metric.short(), "dim": self.dim, "items": self.items.len(),
            "round2_deletions": self.round2_del.len(), "round2_additions": self.round2_add.len(),
            "more_rounds": self.more_rounds.iter().map(|(d, a)| json!({"deletions": d.len(), "additions": a.len()})).collect::<Vec<_>>(),
            "n_trees": self.n_trees, "split_after": self.split_after, "memories": self.memories, "seed": self.seed,
        })
    }
}

pub struct ScenarioSys {
    pub scenarios: Vec<Scenario>,
    pub property: &'static str,
}

fn opts(sc: &Scenario, memory: Option<usize>, round: u64) -> BuildOpts {
    BuildOpts { n_trees: sc.n_trees, split_after: sc.split_after, memory, seed: sc.seed.wrapping_add(round), cancel_at: None }
}

/// S + read-back + a bounded set of queries.
fn judge(s: &Scratch, rtxn: &heed::RoTxn, sc: &Scenario, model: &BTreeMap<u32, Vec<u32>>, w: &mut Worker) -> Result<(), (String, String)> {
    let kv = s.dump(rtxn);
    let ix = decode_index(&kv, 0, sc.metric, sc.dim).map_err(|e| ("F/undecodable".to_string(), e))?;
    let st = oracle::structure(&ix, &model.keys().copied().collect(), sc.metric, sc.dim)?;
    w.max("max_tree_depth", st.max_depth as u64);
    // every build of a scenario uses the same capacity: no bucket may exceed it (C15's clause, here also under a memory hint)
    let cap = sc.split_after.unwrap_or(sc.dim) as u64;
    w.max("max_bucket", st.max_bucket);
    if st.max_bucket > cap {
        return Err(("O/bucket-over-capacity".into(), format!("a bucket holds {} items, the capacity is {cap} in every build of the scenario", st.max_bucket)));
    }
    if st.zero_normals > 0 {
        w.count("forests_with_degenerate_plane", 1);
    }
    // C05 on the raw leaves: structure and storage do not depend on the values
    for (id, written) in model {
        let leaf = ix.items.get(id).ok_or_else(|| ("ST/raw-missing".to_string(), format!("item {id} has no leaf")))?;
        if leaf.vector != expected_vector_bytes(sc.metric, written) {
            return Err(("ST/raw-vector".into(), format!("the stored vector of item {id} is not what was written")));
        }
    }
    let n = model.len();
    let r = catch(|| -> Result<(), (String, String)> {
        with_metric!(sc.metric, D => {
            let reader = arroy::Reader::<D>::open(rtxn, 0, arroy_db::<D>(s.db)).map_err(|e| ("X/open-failed".to_string(), e.to_string()))?;
            if reader.n_items() != n as u64 {
                return Err(("ST/reader-n-items".into(), format!("n_items = {}, stored {n}", reader.n_items())));
            }
            let ids: Vec<u32> = model.keys().copied().collect();
            let mut picks: Vec<u32> = [0usize, n / 3, n / 2, n.saturating_sub(1)].iter().filter(|i| **i < n).map(|i| ids[*i]).collect();
            // the special items themselves are queried too: the first two holding +inf, -inf, a NaN, and an all-zero vector
            // (inf - inf and 0 * inf are where arithmetic NaNs, of either sign, come from)
            let is = |v: &Vec<u32>, f: &dyn Fn(f32) -> bool| v.iter().any(|b| f(f32::from_bits(*b)));
            let kinds: [&dyn Fn(&Vec<u32>) -> bool; 4] = [
                &|v| is(v, &|x| x == f32::INFINITY),
                &|v| is(v, &|x| x == f32::NEG_INFINITY),
                &|v| is(v, &|x| x.is_nan()),
                &|v| v.iter().all(|b| f32::from_bits(*b) == 0.0),
            ];
            for kind in kinds {
                picks.extend(model.iter().filter(|(_, v)| kind(v)).map(|(id, _)| *id).take(2));
            }
            picks.sort();
            picks.dedup();
            let filter: roaring::RoaringBitmap = ids.iter().copied().step_by(3).collect();
            for id in picks {
                let q = &model[&id];
                let api = reader.item_vector(rtxn, id).map_err(|e| ("ST/api".to_string(), e.to_string()))?.map(|v| crate::common::bits_of(&v));
                if api != Some(crate::exec::as_representable(sc.metric, q)) {
                    return Err(("ST/vector".into(), format!("item_vector({id}) differs from what was written")));
                }
                for (count, sk, f) in [(1usize, Some(usize::MAX), None), (10, Some(usize::MAX), None), (n, Some(usize::MAX), None), (5, None, None), (n, Some(1), None), (7, Some(usize::MAX), Some(&filter))] {
                    for by_item in [true, false] {
                        let fv = floats_of(q);
                        let res = if by_item {
                            crate::hist::query::<D>(&reader, rtxn, Some(id), None, count, sk, None, f)
                        } else {
                            crate::hist::query::<D>(&reader, rtxn, None, Some(&fv), count, sk, None, f)
                        };
                        let res = match res {
                            Ok(Some(r)) => r,
                            Ok(None) => return Err(("X/none".into(), format!("by_item({id}) = None"))),
                            Err(e) => return Err((if e.starts_with("panic") { "X/query-panicked" } else { "X/query-failed" }.into(), format!("nns({count}) search_k={sk:?} on item {id}: {e}"))),
                        };
                        w.count("queries", 1);
                        let mode = if sk == Some(usize::MAX) && sc.judge_distances { Exactness::Exact } else { Exactness::WellFormed };
                        check_result(sc.metric, sc.dim, model, q, count, f, &res, mode, sc.judge_distances)
                            .map_err(|(c, m)| (c, format!("nns({count}) search_k={sk:?} filter={} query=item {id}: {m}", f.is_some())))?;
                        if sk == Some(usize::MAX) && res.len() != count.min(f.map_or(n, |f| f.len() as usize)) {
                            return Err(("X/len".into(), format!("nns({count}) with an unlimited budget returned {} of {n} items", res.len())));
                        }
                    }
                }
            }
            Ok(())
        })
    });
    match r {
        Ok(x) => x,
        Err(p) => Err((format!("X/reader-panicked:{}", p.site()), format!("{}: {}", p.location, p.message))),
    }
}

fn one_build(s: &Scratch, sc: &Scenario, memory: Option<usize>, round: u64, horizon: u64) -> Result<u64, (String, String)> {
    let mut wtxn = s.env.write_txn().unwrap();
    let o = opts(sc, memory, round);
    let r = catch(|| with_metric!(sc.metric, D => run_build::<D>(s.db, &mut wtxn, 0, sc.dim, &o, None, Some(horizon))));
    let what = format!("round {round}, available_memory {memory:?}");
    let (res, trace) = match r {
        Ok(x) => x,
        Err(p) => return Err((format!("B/build-panicked:{}", p.site()), format!("{what}: the build panicked at {}: {}", p.location, p.message))),
    };
    if trace.cancel_polls >= horizon {
        return Err(("B/non-terminating".into(), format!("{what}: the build polled its cancel callback {} times (horizon {horizon}) and was stopped: it does not terminate", trace.cancel_polls)));
    }
    res.map_err(|e| (format!("B/build-failed:{}", crate::exec::ErrKind::of(&e).tag()), format!("{what}: {e}")))?;
    wtxn.commit().unwrap();
    Ok(trace.cancel_polls)
}

impl ScenarioSys {
    fn run(&self, sc: &Scenario, w: &mut Worker) -> Result<(), (String, String)> {
        let mut rounds: Vec<(&Vec<u32>, &Vec<(u32, Vec<u32>)>)> = Vec::new();
        if !sc.round2_del.is_empty() || !sc.round2_add.is_empty() || !sc.more_rounds.is_empty() {
            rounds.push((&sc.round2_del, &sc.round2_add));
        }
        rounds.extend(sc.more_rounds.iter().map(|(d, a)| (d, a)));
        let mut reference_polls = vec![0u64; 1 + rounds.len()];
        for (mi, memory) in sc.memories.iter().enumerate() {
            let s = Scratch::with_map_size("bulk", 1 << 30);
            let mut model: BTreeMap<u32, Vec<u32>> = BTreeMap::new();
            // round 1: items are committed before the build, so page accounting is a function of the file
            {
                let mut wtxn = s.env.write_txn().unwrap();
                with_metric!(sc.metric, D => {
                    let writer = arroy::Writer::<D>::new(arroy_db::<D>(s.db), 0, sc.dim);
                    for (id, v) in &sc.items {
                        writer.add_item(&mut wtxn, *id, &floats_of(v)).map_err(|e| ("B/add-failed".to_string(), e.to_string()))?;
                        model.insert(*id, v.clone());
                    }
                    Ok::<(), (String, String)>(())
                })?;
                wtxn.commit().unwrap();
            }
            let horizon = |round: usize, refs: &[u64]| if sc.horizon > 0 { sc.horizon } else if mi == 0 { 50_000_000 } else { refs[round] * 200 + 100_000 };
            let polls = one_build(&s, sc, *memory, 0, horizon(0, &reference_polls))?;
            if mi == 0 {
                reference_polls[0] = polls;
            }
            w.count("builds", 1);
            w.max("max_polls", polls);
            {
                let r = s.env.read_txn().unwrap();
                judge(&s, &r, sc, &model, w).map_err(|(c, m)| (c, format!("after the first build with available_memory {memory:?}: {m}")))?;
            }
            for (ri, (del, add)) in rounds.iter().enumerate() {
                let round = ri + 1;
                let mut wtxn = s.env.write_txn().unwrap();
                with_metric!(sc.metric, D => {
                    let writer = arroy::Writer::<D>::new(arroy_db::<D>(s.db), 0, sc.dim);
                    for id in del.iter() {
                        writer.del_item(&mut wtxn, *id).map_err(|e| ("B/del-failed".to_string(), e.to_string()))?;
                        model.remove(id);
                    }
                    for (id, v) in add.iter() {
                        writer.add_item(&mut wtxn, *id, &floats_of(v)).map_err(|e| ("B/add-failed".to_string(), e.to_string()))?;
                        model.insert(*id, v.clone());
                    }
                    Ok::<(), (String, String)>(())
                })?;
                wtxn.commit().unwrap();
                let polls = one_build(&s, sc, *memory, round as u64, horizon(round, &reference_polls))?;
                if mi == 0 {
                    reference_polls[round] = polls;
                }
                w.count("builds", 1);
                w.count("incremental_builds", 1);
                w.max("max_polls", polls);
                let r = s.env.read_txn().unwrap();
                judge(&s, &r, sc, &model, w).map_err(|(c, m)| (c, format!("after incremental build {round} with available_memory {memory:?}: {m}")))?;
            }
        }
        w.count("scenarios", 1);
        Ok(())
    }
}

impl System for ScenarioSys {
    type State = u8;
    type Action = usize;
    fn name(&self) -> &'static str {
        "scenarios"
    }
    fn config_json(&self) -> Value {
        json!({"property": self.property, "scenarios": self.scenarios.len()})
    }
    fn initial(&self) -> Vec<u8> {
        vec![0]
    }
    fn key(&self, s: &u8) -> u128 {
        *s as u128
    }
    fn actions(&self, s: &u8) -> Vec<usize> {
        if *s == 0 {
            (0..self.scenarios.len()).collect()
        } else {
            Vec::new()
        }
    }
    fn step(&self, w: &mut Worker, _s: &u8, a: &usize, _seen: &Seen) -> Step<u8> {
        let sc = &self.scenarios[*a];
        match self.run(sc, w) {
            Ok(()) => Step::none(),
            Err((sig, what)) => Step { next: None, violations: vec![Violation { signature: sig, what: format!("{what} :: scenario {}", sc.to_json()), replay: json!({"scenario": sc.to_json()}) }] },
        }
    }
    fn action_json(&self, a: &usize) -> Value {
        self.scenarios[*a].to_json()
    }
    fn encode_state(&self, s: &u8, e: &mut Enc) {
        e.u8(*s)
    }
    fn decode_state(&self, d: &mut Dec) -> u8 {
        d.u8()
    }
    fn stop_layer_on_violation(&self) -> bool {
        true
    }
}

fn lattice_vec(dim: usize, i: usize, salt: usize) -> Vec<u32> {
    (0..dim)
        .map(|j| {
            let x = (((i * 7 + j * 13 + salt * 5) % 29) as f32) - 14.0;
            (if j == 0 && x == 0.0 { 0.5 } else { x }).to_bits()
        })
        .collect()
}

fn finish(report: &mut Report, property: &'static str, scenarios: Vec<Scenario>, secs: u64, rule: &str) {
    run_into(report, property, scenarios, secs, false);
    report.cov("oracle", rule);
}

/// Runs a scenario family; `additive` adds its builds to the states / transitions already
/// recorded by other engines of the same check instead of defining them.
pub fn run_into(report: &mut Report, property: &'static str, scenarios: Vec<Scenario>, secs: u64, additive: bool) {
    let n = scenarios.len();
    let sample = scenarios.first().map(|s| s.to_json());
    let sys = ScenarioSys { scenarios, property };
    let caps = Caps { max_transitions: 10_000_000, max_wall: Duration::from_secs(secs), max_signatures: 8 };
    let o = explore(&sys, &caps);
    eprintln!("[{property}] scenarios={n} counters={:?} cap={:?} violations={}", o.counters, o.cap_hit, o.violations.len());
    let before_states = report.coverage.get("states").and_then(|v| v.as_u64()).unwrap_or(0);
    let before_transitions = report.coverage.get("transitions").and_then(|v| v.as_u64()).unwrap_or(0);
    let before_traces = report.coverage.get("traces_validated_against_impl").and_then(|v| v.as_u64()).unwrap_or(0);
    record(report, "scenarios", &o);
    // model-checking vocabulary: a state = a judged built index, a transition = a build
    let builds = o.counters.get("builds").copied().unwrap_or(0);
    if additive {
        report.cov("states", before_states + builds);
        report.cov("transitions", before_transitions + builds);
        report.cov("traces_validated_against_impl", before_traces + builds);
    } else {
        report.cov("states", builds.max(1));
        report.cov("transitions", builds.max(1));
        report.cov("traces_validated_against_impl", builds);
    }
    report.cov("scenarios_total", n as u64);
    report.cov("scenarios_completed", o.counters.get("scenarios").copied().unwrap_or(0));
    if let Some(s) = sample {
        report.sample(s);
    }
}

/// C01 under the memory hint: a few bulk scenarios (more than 200 items, tight hints, an
/// incremental round) judged by the structure oracle.
pub fn c01_memory_scenarios(tier: Tier) -> Vec<Scenario> {
    let page = 4096usize;
    let mut out = Vec::new();
    let metrics: Vec<Metric> = if tier == Tier::Quick { vec![Metric::Euclidean] } else { M7.to_vec() };
    for metric in metrics {
        for (dim, n, cap, t) in [(2usize, 230usize, None, 2usize), (2, 450, Some(64), 1), (130, 260, Some(220), 2)] {
            let items: Vec<(u32, Vec<u32>)> = (0..n).map(|i| (i as u32, lattice_vec(dim, i, 7))).collect();
            out.push(Scenario {
                label: format!("c01-memory-{}-d{dim}-n{n}", metric.short()),
                metric,
                dim,
                items,
                round2_del: (0..n as u32).step_by(3).collect(),
                round2_add: (0..260).map(|i| (30_000 + i as u32, lattice_vec(dim, i, 8))).collect(),
                more_rounds: Vec::new(),
                n_trees: Some(t),
                split_after: cap,
                memories: vec![None, Some(0), Some(2 * page), Some(n * (5 + 4 * dim) / 2)],
                seed: crate::common::verif_seed(),
                judge_distances: true,
                horizon: 0,
            });
        }
    }
    out
}

// ------------------------------------------------------------------------------------------

pub fn c14(tier: Tier) -> i32 {
    let mut report = Report::new("C14", tier, "model_checking");
    report.assume("the 200-item minimum batch is a constant of the code: the alphabet uses bulk actions on both sides of it");
    report.assume("items are committed before each build, so that the page accounting behind the memory hint is a function of the file");
    let page = 4096usize;
    let mut scenarios = Vec::new();
    let dims: Vec<usize> = vec![2, 130, 256];
    let sizes: Vec<usize> = if tier == Tier::Quick { vec![199, 201, 450] } else { vec![199, 200, 201, 250, 450, 1100] };
    let caps_menu: Vec<Option<usize>> = vec![None, Some(64), Some(220)];
    let trees: Vec<usize> = vec![1, 3];
    let metrics: Vec<Metric> = if tier == Tier::Quick { vec![Metric::Euclidean, Metric::BqCosine] } else { M7.to_vec() };
    for metric in &metrics {
        for &dim in &dims {
            if *metric != Metric::Euclidean && dim != 2 {
                continue;
            }
            for &n in &sizes {
                for cap in &caps_menu {
                    // 256 dimensions: only the capacity below the dimension and below the 200-item batch (64), largest size
                    if dim == 256 && (*cap != Some(64) || n != *sizes.last().unwrap().min(&450)) {
                        continue;
                    }
                    for &t in &trees {
                        for round2 in 0..5 {
                            let items: Vec<(u32, Vec<u32>)> = (0..n).map(|i| (i as u32, lattice_vec(dim, i, 1))).collect();
                            let leaf = 1 + 4 + 4 * dim;
                            let total = n * leaf;
                            let mut memories: Vec<Option<usize>> = vec![None, Some(0), Some(3 * page), Some(total / 2), Some(1 << 30), Some(usize::MAX)];
                            if tier == Tier::Thorough {
                                memories.extend([Some(page), Some(total), Some(2 * total / 3), Some(16 * page)]);
                            }
                            // what the near-total deletion keeps: a handful of buckets, so that the later insertion puts
                            // more than one 200-item batch into each of them
                            let keep = (n / 2).min(5.max(3 * cap.unwrap_or(dim) / 2));
                            let (del, add): (Vec<u32>, Vec<(u32, Vec<u32>)>) = match round2 {
                                0 => (Vec::new(), Vec::new()),
                                1 => ((0..n as u32).step_by(2).collect(), (0..250).map(|i| (10_000 + i as u32, lattice_vec(dim, i, 2))).collect()),
                                2 => ((0..60u32).collect(), (0..201).map(|i| (20_000 + i as u32, lattice_vec(dim, i, 3))).collect()),
                                // hardly any deletion: the first batch of the round creates more nodes than the round freed
                                3 => ((0..3u32).collect(), (0..450).map(|i| (40_000 + i as u32, lattice_vec(dim, i, 4))).collect()),
                                // nearly everything deleted: the next build leaves holes in the tree-node ids (see more_rounds)
                                _ => ((keep as u32..n as u32).collect(), Vec::new()),
                            };
                            // ... which the large insertion of a third round then reuses below the ids of queued buckets
                            let more = if round2 == 4 { vec![(Vec::new(), (0..900).map(|i| (50_000 + i as u32, lattice_vec(dim, i, 6))).collect())] } else { Vec::new() };
                            scenarios.push(Scenario {
                                label: format!("{}-d{dim}-n{n}-cap{cap:?}-t{t}-r{round2}", metric.short()),
                                metric: *metric,
                                dim,
                                items,
                                round2_del: del,
                                round2_add: add,
                                more_rounds: more,
                                n_trees: Some(t),
                                split_after: *cap,
                                memories,
                                seed: crate::common::verif_seed(),
                                judge_distances: true,
                                horizon: 0,
                            });
                        }
                    }
                }
            }
        }
    }
    // vectors wider than a memory page (two pages per item): a batch bounded in pages then holds about half as many
    // items as pages; with a bucket capacity above that number (and below the 200-item floor) a batch that stopped
    // at the page budget alone would fit a single bucket again and the large-descendants loop would never advance
    for (n, round2) in [(300usize, 0usize), (300, 1)] {
        let dim = 1100usize;
        let items: Vec<(u32, Vec<u32>)> = (0..n).map(|i| (i as u32, lattice_vec(dim, i, 1))).collect();
        let total = n * (1 + 4 + 4 * dim);
        let (del, add): (Vec<u32>, Vec<(u32, Vec<u32>)>) = if round2 == 0 { (Vec::new(), Vec::new()) } else { ((0..n as u32).step_by(2).collect(), (0..250).map(|i| (10_000 + i as u32, lattice_vec(dim, i, 2))).collect()) };
        scenarios.push(Scenario {
            label: format!("euclidean-wider-than-a-page-d{dim}-n{n}-cap120-t2-r{round2}"),
            metric: Metric::Euclidean,
            dim,
            items,
            round2_del: del,
            round2_add: add,
            more_rounds: Vec::new(),
            n_trees: Some(2),
            split_after: Some(120),
            memories: vec![None, Some(0), Some(3 * page), Some(total / 2), Some(usize::MAX)],
            seed: crate::common::verif_seed(),
            judge_distances: true,
            horizon: 0,
        });
    }
    finish(
        &mut report,
        "C14",
        scenarios,
        if tier == Tier::Quick { 45 } else { 1500 },
        "for every scenario (bulk population on both sides of the 200-item batch floor x bucket capacity x tree count x optional incremental rounds: deletions mixed with large insertions, a large insertion with hardly any deletion, and a near-total deletion followed by a large insertion that reuses the freed tree-node ids; plus 300 vectors of 1100 dimensions, wider than a memory page, with a capacity of 120) and every available_memory value (unset as the reference, 0, a few pages, about half / all of the items, ample): the build terminates within 200x the polls of the unset build of the same state (deterministic hang detection, no clock), the structure oracle S holds, the stored vectors are intact and exact queries (unlimited budget, by item and by vector, with and without a filter) equal the f64 brute force",
    );
    report.finish()
}

// ------------------------------------------------------------------------------------------

fn degenerate_family(name: &str, dim: usize, n: usize) -> Vec<Vec<u32>> {
    let f = |x: f32| x.to_bits();
    let base: Vec<u32> = (0..dim).map(|j| f(((j % 5) as f32) - 1.5)).collect();
    match name {
        "one-vector" => (0..n).map(|_| base.clone()).collect(),
        "two-distinct" => (0..n).map(|i| if i % 2 == 0 { base.clone() } else { base.iter().map(|b| f(-f32::from_bits(*b))).collect() }).collect(),
        "three-distinct" => (0..n).map(|i| lattice_vec(dim, i % 3, 1)).collect(),
        "zeros-mixed" => (0..n).map(|i| if i % 3 == 0 { vec![f(0.0); dim] } else { lattice_vec(dim, i % 4, 2) }).collect(),
        "all-zero" => (0..n).map(|_| vec![f(0.0); dim]).collect(),
        "collinear" => (0..n).map(|i| base.iter().map(|b| f(f32::from_bits(*b) * (i as f32 + 1.0))).collect()).collect(),
        "ternary" => (0..n).map(|i| (0..dim).map(|j| f((((i / 3usize.pow((j % 4) as u32)) % 3) as f32) - 1.0)).collect()).collect(),
        "huge" => (0..n).map(|i| (0..dim).map(|j| f(if (i + j) % 2 == 0 { f32::MAX / 2.0 } else { -f32::MAX / 2.0 })).collect()).collect(),
        "subnormal" => (0..n).map(|i| (0..dim).map(|j| f(f32::from_bits(1 + ((i + j) % 7) as u32))).collect()).collect(),
        "one-nan" => (0..n).map(|i| { let mut v = lattice_vec(dim, i, 3); if i % 4 == 0 { v[i % dim] = 0x7fc0_0001; } v }).collect(),
        "one-inf" => (0..n).map(|i| { let mut v = lattice_vec(dim, i, 4); if i % 4 == 1 { v[i % dim] = if i % 8 == 1 { 0x7f80_0000 } else { 0xff80_0000 }; } v }).collect(),
        "constant-coordinate" => (0..n).map(|i| { let mut v = lattice_vec(dim, i, 5); v[0] = f(3.0); v }).collect(),
        // coordinates in {0, +-1} with zeros of either sign (the incremental round overwrites them by their IEEE-equal twins)
        "signed-zeros" => (0..n).map(|i| (0..dim).map(|j| match (i + 2 * j) % 4 { 0 => f(0.0), 1 => f(-0.0), 2 => f(1.0), _ => f(-1.0) }).collect()).collect(),
        _ => unreachable!(),
    }
}

pub const FAMILIES: [&str; 13] = ["signed-zeros", "one-vector", "two-distinct", "three-distinct", "zeros-mixed", "all-zero", "collinear", "ternary", "huge", "subnormal", "one-nan", "one-inf", "constant-coordinate"];

pub fn c20(tier: Tier) -> i32 {
    let mut report = Report::new("C20", tier, "model_checking");
    report.assume("termination is decided by a poll horizon of 900 x (items + 20) cancel polls per build (a normal build of n items polls about 10 n times)");
    report.assume("a worker process that dies (stack overflow, abort) is reported with the scenario it was executing");
    let sizes: Vec<usize> = if tier == Tier::Quick { vec![1, 2, 3, 5, 17, 64, 65, 200, 201, 1000] } else { vec![1, 2, 3, 4, 5, 9, 17, 64, 65, 200, 201, 1000, 3000] };
    let metrics: Vec<Metric> = M7.to_vec();
    let seeds: u64 = if tier == Tier::Quick { 2 } else { 3 };
    let dim = 3usize;
    let mut scenarios = Vec::new();
    for metric in &metrics {
        for fam in FAMILIES {
            for &n in &sizes {
                // the quick tier drops the two largest sizes for the quantised metrics' most expensive families
                for seed in 0..seeds {
                    let vecs = degenerate_family(fam, dim, n);
                    let items: Vec<(u32, Vec<u32>)> = vecs.iter().enumerate().map(|(i, v)| (i as u32, v.clone())).collect();
                    let mut del: Vec<u32> = (0..n as u32).filter(|i| i % 3 == 0).collect();
                    let mut add: Vec<(u32, Vec<u32>)> = del.iter().map(|i| (*i, vecs[(*i as usize + 1) % n].clone())).collect();
                    if fam == "signed-zeros" {
                        // overwrite (no deletion first) every second item by the vector that differs only in the sign of its zeros
                        del.clear();
                        add = (0..n).step_by(2).map(|i| (i as u32, vecs[i].iter().map(|b| if f32::from_bits(*b) == 0.0 { b ^ 0x8000_0000 } else { *b }).collect())).collect();
                    }
                    scenarios.push(Scenario {
                        label: format!("{}-{fam}-n{n}-s{seed}", metric.short()),
                        metric: *metric,
                        dim,
                        items,
                        round2_del: del,
                        round2_add: add,
                        more_rounds: Vec::new(),
                        n_trees: if n > 500 { Some(2) } else { None },
                        split_after: None,
                        // many identical vectors in one bucket: also under a memory hint smaller than that bucket
                        memories: if n > 200 && n <= 1000 && ["one-vector", "two-distinct", "three-distinct", "all-zero"].contains(&fam) && seed == 0 { vec![None, Some(0), Some(4096)] } else { vec![None] },
                        seed: crate::common::verif_seed().wrapping_add(seed),
                        judge_distances: false,
                        horizon: 300 * (n as u64 + 20) * 3,
                    });
                }
            }
        }
    }
    finish(
        &mut report,
        "C20",
        scenarios,
        if tier == Tier::Quick { 50 } else { 1500 },
        "for every dataset family (one vector repeated, 2-3 distinct vectors repeated, zero vectors mixed in / only, collinear points, coordinates in {0,+-1}, magnitudes f32::MAX/2 and subnormal, NaN and infinite components, a constant coordinate) x size x metric x seed, followed by one incremental round (delete a third, re-add other vectors): each build returns within the poll horizon without panic or crash, the structure oracle S holds, the stored vectors are bit-identical to what was written, and every query of a small option menu returns a well-formed result (at most count, distinct, stored, inside the filter, ordered by the total order on possibly-NaN scores; unlimited budget => min(count, eligible) results) instead of an error",
    );
    report.finish()
}
