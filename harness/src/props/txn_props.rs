//! C05, C06, C07, C19 — properties decided on the transactional history system.

use std::time::Duration;

use crate::common::{verif_seed, Metric, Report, Tier, M7};
use crate::exec::{Action, BuildOpts};
use crate::explore::{explore, record, Caps};
use crate::txnsys::{TxnCfg, TxnObs, TxnSystem};

const SPECIALS: [u32; 10] = [
    0x0000_0000, // +0.0
    0x8000_0000, // -0.0
    0x3f80_0000, // 1.0
    0xbfc0_0000, // -1.5
    0x0000_0001, // smallest subnormal
    0x7f7f_ffff, // f32::MAX
    0x7f80_0000, // +inf
    0xff80_0000, // -inf
    0x7fc0_0001, // NaN, positive, payload
    0xffc1_2345, // NaN, negative, payload
];

/// Six vectors per dimension that together place every special value at the first, a middle,
/// the 64th/65th and the last position.
pub fn special_vectors(dim: usize) -> Vec<Vec<u32>> {
    let mk = |k: usize| -> Vec<u32> { (0..dim).map(|j| SPECIALS[(j + 3 * k) % 10]).collect() };
    // the second vector of the menu equals the first one up to the sign of its zeros and the
    // payload of its NaNs: overwriting one by the other changes bits but not IEEE equality
    let twin: Vec<u32> = mk(0)
        .iter()
        .map(|b| match *b {
            0x0000_0000 => 0x8000_0000,
            0x8000_0000 => 0x0000_0000,
            0x7fc0_0001 => 0x7fc0_0002,
            x => x,
        })
        .collect();
    // order: zeros first, then the vectors that start with +inf and with a NaN (so that even a
    // one-dimensional, four-vector menu holds a zero, its twin, an infinity and a NaN)
    vec![mk(0), twin, mk(2), mk(3), mk(1), mk(4), mk(5)]
}

fn plain_vectors(dim: usize) -> Vec<Vec<u32>> {
    (0..3)
        .map(|k| (0..dim).map(|j| ((((j + k * 2) % 5) as i32 - 2) as f32 + if j == 0 { 0.5 } else { 0.0 }).to_bits()).collect())
        .collect()
}

fn build(index: u16, n_trees: Option<usize>, split_after: Option<usize>, cancel_at: Option<u64>) -> Action {
    Action::Build {
        index,
        opts: BuildOpts { n_trees, split_after, memory: None, seed: verif_seed(), cancel_at },
    }
}

pub fn run_txn(report: &mut Report, property: &str, runs: Vec<(TxnCfg, Caps)>) {
    let mut descr = Vec::new();
    for (cfg, caps) in runs {
        let label = cfg.label.clone();
        let mut d = cfg.to_json();
        if let Some(o) = d.as_object_mut() {
            // the menu with full vectors is large: keep the shape only
            let n = cfg.menu.len();
            o.insert("menu".into(), serde_json::Value::from(format!("{n} actions: {}", cfg.menu.iter().map(|a| a.to_json()["op"].as_str().unwrap_or("").to_string()).collect::<Vec<_>>().join(","))));
        }
        descr.push(d);
        let o = explore(&TxnSystem { cfg }, &caps);
        eprintln!(
            "[{property}] {label}: states={} transitions={} layers={:?} cap={:?} violations={}",
            o.states, o.transitions, o.layers, o.cap_hit, o.violations.len()
        );
        record(report, &label, &o);
    }
    let prev = report.coverage.remove("bounds");
    let mut all = match prev {
        Some(serde_json::Value::Array(a)) => a,
        _ => Vec::new(),
    };
    all.extend(descr);
    report.cov("bounds", serde_json::Value::from(all));
}

/// C01 on several indexes: the same kind of histories interleaved on two indexes at the
/// extremes of the u16 range, with the structure and exact-search oracles on every index that opens.
pub fn c01_two_index_cfg(metric: Metric, depth: usize) -> TxnCfg {
    let dim = 2;
    let vecs = plain_vectors(dim);
    let mut menu = Vec::new();
    for index in [0u16, 65535u16] {
        for (k, id) in [0u32, 1, 2, u32::MAX].iter().enumerate() {
            menu.push(Action::Add { index, id: *id, vec: vecs[k % 3].clone() });
        }
        menu.push(Action::Del { index, id: 0 });
        menu.push(Action::Del { index, id: u32::MAX });
        menu.push(build(index, Some(2), Some(1), None));
        menu.push(build(index, None, None, None));
    }
    TxnCfg {
        indexes: vec![(0, metric, dim), (65535, metric, dim)],
        menu,
        prefix: Vec::new(),
        transactions: false,
        max_depth: depth,
        obs: TxnObs { forest: true, isolation: true, ..Default::default() },
        probe_ids: vec![0, 1, 2, u32::MAX],
        label: format!("two-indexes-{}-depth{depth}", metric.short()),
    }
}

fn caps(secs: u64) -> Caps {
    Caps { max_transitions: 50_000_000, max_wall: Duration::from_secs(secs), max_signatures: 10 }
}

// ------------------------------------------------------------------------------------------

fn c05_cfg(metric: Metric, dim: usize, n_vecs: usize, depth: usize) -> TxnCfg {
    let (a, b) = (0u16, 1u16);
    let ids = [0u32, 1 << 31, u32::MAX];
    let vecs: Vec<Vec<u32>> = special_vectors(dim).into_iter().take(n_vecs).collect();
    let mut menu = Vec::new();
    for id in ids {
        for v in &vecs {
            menu.push(Action::Add { index: a, id, vec: v.clone() });
        }
    }
    for id in ids {
        menu.push(Action::Append { index: a, id, vec: vecs[0].clone() });
    }
    for id in ids {
        menu.push(Action::Del { index: a, id });
    }
    menu.push(Action::Clear { index: a });
    menu.push(build(a, None, None, None));
    menu.push(build(a, Some(2), Some(1), None));
    // the second index: a reduced alphabet
    menu.push(Action::Add { index: b, id: 0, vec: vecs[vecs.len() - 1].clone() });
    menu.push(Action::Add { index: b, id: u32::MAX, vec: vecs[0].clone() });
    menu.push(Action::Del { index: b, id: 0 });
    menu.push(build(b, None, Some(1), None));
    TxnCfg {
        indexes: vec![(a, metric, dim), (b, metric, dim)],
        menu,
        prefix: Vec::new(),
        transactions: true,
        max_depth: depth,
        obs: TxnObs { store: true, ..Default::default() },
        probe_ids: vec![0, 1, 1 << 31, u32::MAX],
        label: format!("{}-d{dim}-depth{depth}", metric.short()),
    }
}

pub fn c05(tier: Tier) -> i32 {
    let mut report = Report::new("C05", tier, "model_checking");
    report.assume("LMDB/heed transactions; roaring; rayon");
    let mut runs = Vec::new();
    match tier {
        Tier::Quick => {
            runs.push((c05_cfg(Metric::Euclidean, 3, 3, 5), caps(14)));
            runs.push((c05_cfg(Metric::Manhattan, 1, 4, 4), caps(14)));
            runs.push((c05_cfg(Metric::DotProduct, 1, 4, 4), caps(14)));
            runs.push((c05_cfg(Metric::DotProduct, 3, 4, 4), caps(14)));
            runs.push((c05_cfg(Metric::BqCosine, 65, 3, 5), caps(14)));
            runs.push((c05_cfg(Metric::Cosine, 65, 2, 4), caps(14)));
        }
        Tier::Thorough => {
            for m in M7 {
                for d in [1usize, 3, 65] {
                    runs.push((c05_cfg(m, d, 7, 4), caps(60)));
                    runs.push((c05_cfg(m, d, 2, 6), caps(60)));
                }
            }
        }
    }
    run_txn(&mut report, "C05", runs);
    report.cov("oracle", "after every action of every history (real begin/commit/abort), inside the write transaction and after each commit from a fresh read transaction: contains_item, item_vector (bit for bit; quantised: sign pattern at the declared dimension), del_item's return value, iter (ascending, once, same vectors), is_empty, raw leaf bytes; when the index opens also Reader::item_ids / n_items / item_vector / iter / dimensions — all equal to a BTreeMap model");
    report.finish()
}

// ------------------------------------------------------------------------------------------

fn c06_cfg(metric: Metric, dim: usize, depth: usize, rejected: bool) -> TxnCfg {
    let vecs = plain_vectors(dim);
    let wrong: Vec<u32> = (0..dim + 1).map(|i| (i as f32).to_bits()).collect();
    let mut menu = Vec::new();
    for index in [0u16, 1u16] {
        menu.push(Action::Add { index, id: 0, vec: vecs[0].clone() });
        menu.push(Action::Add { index, id: 1, vec: vecs[1].clone() });
        menu.push(Action::Append { index, id: u32::MAX, vec: vecs[2].clone() });
        menu.push(Action::Append { index, id: 0, vec: vecs[0].clone() });
        menu.push(Action::Add { index, id: 0, vec: wrong.clone() });
        menu.push(Action::Del { index, id: 0 });
        menu.push(Action::Del { index, id: 5 });
        if rejected {
            // C19: the largest ids deleted without a rebuild (the metadata of the last build still lists them)
            menu.push(Action::Del { index, id: 1 });
            menu.push(Action::Del { index, id: u32::MAX });
        }
        menu.push(Action::Clear { index });
        menu.push(build(index, None, Some(1), None));
        menu.push(build(index, None, Some(1), Some(0)));
    }
    TxnCfg {
        indexes: vec![(0, metric, dim), (1, metric, dim)],
        menu,
        prefix: Vec::new(),
        transactions: true,
        max_depth: depth,
        obs: TxnObs { staleness: true, rejected, ..Default::default() },
        probe_ids: vec![0, 1, 5, u32::MAX],
        label: format!("{}-d{dim}-depth{depth}", metric.short()),
    }
}

fn c06_metric_change_cfg(src: Metric, targets: &[Metric], depth: usize) -> TxnCfg {
    let mut c = c18_cfg_from(src, 3, targets, depth, true);
    c.obs = TxnObs { staleness: true, ..Default::default() };
    c.label = format!("{}-metric-change-depth{depth}", src.short());
    c
}

pub fn c06(tier: Tier) -> i32 {
    let mut report = Report::new("C06", tier, "model_checking");
    report.assume("LMDB/heed transactions; roaring; rayon");
    let mut runs = Vec::new();
    match tier {
        Tier::Quick => {
            runs.push((c06_cfg(Metric::Euclidean, 2, 6, false), caps(20)));
            runs.push((c06_cfg(Metric::BqCosine, 2, 6, false), caps(20)));
            // "immediately after a successful build the reader opens" also after a metric change on
            // a populated, built index (nothing pending, automatic tree count)
            runs.push((c06_metric_change_cfg(Metric::Euclidean, &[Metric::Cosine, Metric::BqEuclidean], 3), caps(10)));
        }
        Tier::Thorough => {
            for m in M7 {
                runs.push((c06_cfg(m, 2, 8, false), caps(150)));
                runs.push((c06_metric_change_cfg(m, &M7, 4), caps(60)));
            }
        }
    }
    run_txn(&mut report, "C06", runs);
    metric_matrix(&mut report);
    cancelled_then_committed(&mut report, tier);
    foreign_writer_rebuild(&mut report);
    report.cov("oracle", "an index built under each of the 7 metrics opens under that metric and fails with UnmatchingDistance under each of the 6 others (49 pairs); after every action of every history over {add, overwrite, append ok/rejected, add with a wrong length, delete present/absent, clear, build, build cancelled at its first poll, commit, abort} on two indexes: Reader::open is Ok / MissingMetadata / NeedBuild exactly as the model's (built, stale) says, need_build() = !built || stale, opening under another metric fails, inside the write transaction and from a fresh read transaction after commit; calls that change nothing leave the raw dump byte-identical; for every poll position of a build over pending changes (add, overwrite, delete, mixed, near-total deletion; built and never-built index), the build is cancelled there and the transaction committed all the same: the index is still refused and need_build() is true from a fresh read transaction, the built neighbour index is untouched");
    report.finish()
}

/// A build that fails is not a successful build: for every poll position n of a build over
/// pending changes, the build is cancelled at n and the transaction is *committed* all the same;
/// the index must then still be refused (NeedBuild, or MissingMetadata if it was never built) and
/// need_build() must answer true, from a fresh read transaction — an item changed since the last
/// successful build. An untouched built neighbour index must stay servable and byte-identical.
fn cancelled_then_committed(report: &mut Report, tier: Tier) {
    use crate::common::{arroy_db, sub_dump, Scratch, Violation};
    use crate::exec::{exec, ErrKind, IndexTypes, Outcome};
    let metrics: Vec<Metric> = if tier == Tier::Quick { vec![Metric::Euclidean, Metric::DotProduct] } else { M7.to_vec() };
    let dim = 2usize;
    let vec_of = |i: u32| -> Vec<u32> { vec![((i % 7) as f32 - 2.5).to_bits(), (((i * 5) % 11) as f32 - 4.0).to_bits()] };
    // (items built and committed before, pending operations of the faulted transaction)
    let bases: Vec<(u32, bool)> = if tier == Tier::Quick { vec![(0, false), (9, true)] } else { vec![(0, false), (1, true), (4, true), (9, true), (25, true)] };
    let pendings: [&str; 5] = ["add", "overwrite", "delete", "add+delete", "delete-all-but-one"];
    let mut positions = 0u64;
    let mut refused = 0u64;
    let mut found: Vec<Violation> = Vec::new();
    crate::explore::in_single_thread_pool(|| {
        for metric in &metrics {
            for (n_base, built) in &bases {
                for pending in pendings {
                    if *n_base == 0 && pending != "add" {
                        continue;
                    }
                    // with a single item "delete all but one" changes nothing: nothing would be pending
                    if *n_base <= 1 && pending == "delete-all-but-one" {
                        continue;
                    }
                    let mut n = 0u64;
                    loop {
                        let s = Scratch::new("c06c");
                        let mut types = IndexTypes::new();
                        types.insert(0, (*metric, dim));
                        types.insert(1, (*metric, dim));
                        let mut wtxn = s.env.write_txn().unwrap();
                        for i in 0..*n_base {
                            exec(s.db, &mut wtxn, &mut types, &Action::Add { index: 0, id: i, vec: vec_of(i) });
                        }
                        for i in 0..4u32 {
                            exec(s.db, &mut wtxn, &mut types, &Action::Add { index: 1, id: i, vec: vec_of(i + 3) });
                        }
                        if *built {
                            assert!(exec(s.db, &mut wtxn, &mut types, &build(0, Some(2), Some(2), None)).0.is_ok());
                        }
                        assert!(exec(s.db, &mut wtxn, &mut types, &build(1, Some(2), Some(2), None)).0.is_ok());
                        wtxn.commit().unwrap();
                        let mut wtxn = s.env.write_txn().unwrap();
                        let ops: Vec<Action> = match pending {
                            "add" => vec![Action::Add { index: 0, id: 100, vec: vec_of(100) }, Action::Add { index: 0, id: 101, vec: vec_of(101) }, Action::Add { index: 0, id: 102, vec: vec_of(102) }],
                            "overwrite" => vec![Action::Add { index: 0, id: 0, vec: vec_of(50) }],
                            "delete" => vec![Action::Del { index: 0, id: 0 }],
                            "add+delete" => vec![Action::Add { index: 0, id: 100, vec: vec_of(100) }, Action::Del { index: 0, id: n_base - 1 }],
                            _ => (1..*n_base).map(|id| Action::Del { index: 0, id }).collect(),
                        };
                        for op in &ops {
                            exec(s.db, &mut wtxn, &mut types, op);
                        }
                        let neighbour_before = sub_dump(&s.dump(&wtxn), 1);
                        let (o, _) = exec(s.db, &mut wtxn, &mut types, &build(0, Some(2), Some(2), Some(n)));
                        let what = format!("{} index of {n_base} items ({}), pending {pending}, build cancelled from poll {n} on, then committed", metric.short(), if *built { "built" } else { "never built" });
                        match o {
                            Outcome::Unit => break, // the build never asked again: every position is covered
                            Outcome::Err(ErrKind::BuildCancelled) => {}
                            other => {
                                found.push(Violation::new("SL/cancelled-build-outcome", format!("{what}: the build returned {}", other.describe())));
                                break;
                            }
                        }
                        wtxn.commit().unwrap();
                        positions += 1;
                        let rtxn = s.env.read_txn().unwrap();
                        let verdict = crate::with_metric!(*metric, D => {
                            let open = match crate::common::catch(|| arroy::Reader::<D>::open(&rtxn, 0, arroy_db::<D>(s.db)).map(|_| ())) {
                                Ok(Ok(())) => "Ok".to_string(),
                                Ok(Err(e)) => ErrKind::of(&e).tag(),
                                Err(p) => format!("panic {}", p.message),
                            };
                            let need = arroy::Writer::<D>::new(arroy_db::<D>(s.db), 0, dim).need_build(&rtxn).map_err(|e| e.to_string());
                            let neighbour = arroy::Reader::<D>::open(&rtxn, 1, arroy_db::<D>(s.db)).map(|_| ()).map_err(|e| e.to_string());
                            (open, need, neighbour)
                        });
                        let want_open = if *built { "NeedBuild" } else { "MissingMetadata" };
                        if verdict.0 != want_open {
                            found.push(Violation::new(
                                format!("SL/open-after-failed-build:{}", verdict.0),
                                format!("{what}: Reader::open = {}, expected {want_open} (items changed since the last successful build)", verdict.0),
                            ));
                        } else {
                            refused += 1;
                        }
                        if verdict.1 != Ok(true) {
                            found.push(Violation::new("SL/need-build-after-failed-build", format!("{what}: need_build() = {:?}, expected true", verdict.1)));
                        }
                        if verdict.2.is_err() || sub_dump(&s.dump(&rtxn), 1) != neighbour_before {
                            found.push(Violation::new("SL/neighbour-after-failed-build", format!("{what}: the untouched built neighbour index changed or does not open: {:?}", verdict.2)));
                        }
                        drop(rtxn);
                        if found.len() > 40 {
                            break;
                        }
                        n += 1;
                    }
                }
            }
        }
    });
    // one violation per signature is enough
    let mut seen = std::collections::BTreeSet::new();
    for v in found {
        if seen.insert(v.signature.clone()) {
            report.add_violation(v);
        }
    }
    report.cov("cancelled_then_committed_positions", positions);
    report.cov("cancelled_then_committed_refused", refused);
}

/// "Built with": an index built under metric A is updated and rebuilt through a `Writer` typed with a
/// metric B of the same leaf layout, without `prepare_changing_distance` (the API allows it). After
/// that successful build the index was built with B: a reader of B opens, a reader of A is refused,
/// `need_build` is false. Histories: overwrite existing ids only / add an id / delete an id.
fn foreign_writer_rebuild(report: &mut Report) {
    use crate::common::{arroy_db, catch, Scratch, Violation};
    use arroy::distances::{Euclidean, Manhattan};
    let mut cases = 0u64;
    let verdicts: Vec<Result<(), (String, String)>> = crate::explore::in_single_thread_pool(|| {
        let mut out = Vec::new();
        for pattern in ["overwrite-only", "add", "delete"] {
            for a_is_euclidean in [true, false] {
                let s = Scratch::new("c06f");
                let r = catch(|| -> Result<(), (String, String)> {
                    let mut wtxn = s.env.write_txn().unwrap();
                    let e = |x: arroy::Error| ("SL/foreign-writer".to_string(), x.to_string());
                    let v = |i: u32, salt: u32| vec![((i * 7 + salt) % 11) as f32 - 5.0, ((i * 3 + salt) % 7) as f32 - 3.0];
                    macro_rules! scenario {
                        ($A:ty, $B:ty) => {{
                            let wa = arroy::Writer::<$A>::new(arroy_db::<$A>(s.db), 0, 2);
                            for i in 0..8u32 {
                                wa.add_item(&mut wtxn, i, &v(i, 1)).map_err(e)?;
                            }
                            let mut rng = <rand::rngs::StdRng as rand::SeedableRng>::seed_from_u64(verif_seed());
                            wa.builder(&mut rng).n_trees(2).build(&mut wtxn).map_err(e)?;
                            let wb = arroy::Writer::<$B>::new(arroy_db::<$B>(s.db), 0, 2);
                            for i in 0..8u32 {
                                wb.add_item(&mut wtxn, i, &v(i, 4)).map_err(e)?;
                            }
                            match pattern {
                                "add" => wb.add_item(&mut wtxn, 100, &v(100, 4)).map_err(e)?,
                                "delete" => {
                                    wb.del_item(&mut wtxn, 3).map_err(e)?;
                                }
                                _ => {}
                            }
                            let mut rng = <rand::rngs::StdRng as rand::SeedableRng>::seed_from_u64(verif_seed() + 1);
                            wb.builder(&mut rng).n_trees(2).build(&mut wtxn).map_err(e)?;
                            let what = format!("index built under {}, then {pattern} and a successful build through a Writer of {}", stringify!($A), stringify!($B));
                            if let Err(x) = arroy::Reader::<$B>::open(&wtxn, 0, arroy_db::<$B>(s.db)) {
                                return Err(("SL/open-after-foreign-build".into(), format!("{what}: a reader of the metric it was just built with does not open: {x}")));
                            }
                            match arroy::Reader::<$A>::open(&wtxn, 0, arroy_db::<$A>(s.db)) {
                                Err(arroy::Error::UnmatchingDistance { .. }) => {}
                                other => return Err(("SL/open-wrong-metric".into(), format!("{what}: a reader of the old metric gets {:?}", other.map(|_| "Ok").map_err(|x| x.to_string())))),
                            }
                            if wb.need_build(&wtxn).map_err(e)? {
                                return Err(("SL/need-build".into(), format!("{what}: need_build() is still true")));
                            }
                            Ok(())
                        }};
                    }
                    if a_is_euclidean {
                        scenario!(Euclidean, Manhattan)
                    } else {
                        scenario!(Manhattan, Euclidean)
                    }
                });
                out.push(match r {
                    Ok(x) => x,
                    Err(p) => Err((format!("SL/foreign-writer-panicked:{}", p.site()), format!("{} {}", p.location, p.message))),
                });
            }
        }
        out
    });
    for v in verdicts {
        cases += 1;
        if let Err((c, m)) = v {
            report.add_violation(Violation::new(c, m));
            break;
        }
    }
    report.cov("foreign_writer_rebuilds", cases);
}

/// Every (built-with, opened-as) pair of the 7 metrics: Ok on the diagonal, UnmatchingDistance elsewhere.
fn metric_matrix(report: &mut Report) {
    use crate::common::{arroy_db, Scratch, Violation};
    let dim = 3;
    let vecs = plain_vectors(dim);
    let mut pairs = 0u64;
    crate::explore::in_single_thread_pool(|| {
        for built in M7 {
            let s = Scratch::new("c06m");
            let mut wtxn = s.env.write_txn().unwrap();
            let mut types = crate::exec::IndexTypes::new();
            types.insert(9, (built, dim));
            for (k, v) in vecs.iter().enumerate() {
                crate::exec::exec(s.db, &mut wtxn, &mut types, &Action::Add { index: 9, id: k as u32, vec: v.clone() });
            }
            let (o, _) = crate::exec::exec(s.db, &mut wtxn, &mut types, &build(9, Some(2), Some(1), None));
            if !o.is_ok() {
                report.add_violation(Violation::new("SL/matrix-build", format!("building a 3-item {} index: {}", built.short(), o.describe())));
                continue;
            }
            for opened in M7 {
                pairs += 1;
                let got = crate::with_metric!(opened, OD => {
                    match crate::common::catch(|| arroy::Reader::<OD>::open(&wtxn, 9, arroy_db::<OD>(s.db)).map(|_| ())) {
                        Ok(Ok(())) => "Ok".to_string(),
                        Ok(Err(e)) => crate::exec::ErrKind::of(&e).tag(),
                        Err(p) => format!("panic {}", p.message),
                    }
                });
                let want = if opened == built { "Ok" } else { "UnmatchingDistance" };
                if got != want {
                    report.add_violation(Violation::new(
                        format!("SL/metric-matrix:{}-as-{}", built.short(), opened.short()),
                        format!("an index built under {} and opened under {}: {got}, expected {want}", built.short(), opened.short()),
                    ));
                }
            }
        }
    });
    report.cov("metric_pairs_checked", pairs);
}

// ------------------------------------------------------------------------------------------

pub fn c19(tier: Tier) -> i32 {
    let mut report = Report::new("C19", tier, "model_checking");
    report.assume("LMDB/heed transactions (nested transactions are used to undo each probe); roaring; rayon");
    let mut runs = Vec::new();
    match tier {
        Tier::Quick => {
            runs.push((c06_cfg(Metric::Euclidean, 2, 6, true), caps(25)));
            runs.push((c06_cfg(Metric::BqEuclidean, 3, 6, true), caps(25)));
            // a metric whose leaf header depends on the vector: "an accepted append behaves exactly like adding"
            runs.push((c06_cfg(Metric::Cosine, 2, 5, true), caps(15)));
        }
        Tier::Thorough => {
            for m in M7 {
                runs.push((c06_cfg(m, 3, 7, true), caps(150)));
            }
        }
    }
    for (c, _) in runs.iter_mut() {
        c.obs.staleness = false;
    }
    run_txn(&mut report, "C19", runs);
    long_lived_writer(&mut report, tier);
    report.cov("oracle", "one Writer value kept across every operation, commit and abort of every history up to the depth bound answers exactly like a fresh Writer per call (differential: outcomes and raw dumps); at every state of the exploration (two indexes), each inside a nested transaction: add_item / append_item / by_vector with lengths {0, d-1, d+1, 2d, 1000} => InvalidVecDimension{expected, received}; append_item for ids around the maximum key of the whole database => InvalidItemAppend unless the key sorts after every key, and then the same dump as add_item; del_item of absent ids => Ok(false); raw dump byte-identical after every rejected call; the same expectations are applied to every transition of the exploration itself");
    report.finish()
}

/// A `Writer` is a handle: what a call answers may depend on the database only. Every history over
/// {append x3, add, delete x2, clear, commit, abort} up to the depth bound is executed twice with
/// real transactions — through ONE `Writer` value kept for the whole history, and through a fresh
/// `Writer` per call — and every outcome and the final raw dump must agree (differential oracle).
fn long_lived_writer(report: &mut Report, tier: Tier) {
    use crate::common::{arroy_db, dump, Scratch, Violation};
    type D = arroy::distances::Euclidean;
    #[derive(Clone, Copy, Debug, PartialEq)]
    enum Op {
        Append(u32),
        Add(u32),
        Del(u32),
        Clear,
        Commit,
        Abort,
    }
    let alphabet = [Op::Append(5), Op::Append(3), Op::Append(9), Op::Add(3), Op::Del(5), Op::Del(9), Op::Clear, Op::Commit, Op::Abort];
    let depth = if tier == Tier::Quick { 4 } else { 6 };
    let vec_of = |id: u32| -> Vec<f32> { vec![id as f32 - 4.0, (id % 3) as f32 + 0.5] };
    let a = Scratch::new("c19a");
    let b = Scratch::new("c19b");
    let apply = |w: &arroy::Writer<D>, wtxn: &mut heed::RwTxn, op: Op| -> String {
        let r = crate::common::catch(|| match op {
            Op::Append(id) => w.append_item(wtxn, id, &vec_of(id)).map(|_| "ok".to_string()),
            Op::Add(id) => w.add_item(wtxn, id, &vec_of(id)).map(|_| "ok".to_string()),
            Op::Del(id) => w.del_item(wtxn, id).map(|x| format!("{x}")),
            Op::Clear => w.clear(wtxn).map(|_| "ok".to_string()),
            Op::Commit | Op::Abort => unreachable!(),
        });
        match r {
            Ok(Ok(x)) => x,
            Ok(Err(e)) => format!("Err({})", crate::exec::ErrKind::of(&e).tag()),
            Err(p) => format!("panic {}", p.message),
        }
    };
    let mut histories = 0u64;
    let mut seq = vec![0usize; depth];
    let total = alphabet.len().pow(depth as u32);
    for code in 0..total {
        let mut c = code;
        for s in seq.iter_mut() {
            *s = c % alphabet.len();
            c /= alphabet.len();
        }
        let run = |s: &Scratch, long_lived: bool| -> (Vec<String>, crate::common::Kv) {
            {
                let mut w = s.env.write_txn().unwrap();
                s.db.clear(&mut w).unwrap();
                w.commit().unwrap();
            }
            let kept = arroy::Writer::<D>::new(arroy_db::<D>(s.db), 0, 2);
            let mut outs = Vec::new();
            let mut wtxn = Some(s.env.write_txn().unwrap());
            for &i in &seq {
                match alphabet[i] {
                    Op::Commit => {
                        wtxn.take().unwrap().commit().unwrap();
                        wtxn = Some(s.env.write_txn().unwrap());
                        outs.push("commit".to_string());
                    }
                    Op::Abort => {
                        wtxn.take().unwrap().abort();
                        wtxn = Some(s.env.write_txn().unwrap());
                        outs.push("abort".to_string());
                    }
                    op => {
                        let fresh;
                        let w = if long_lived {
                            &kept
                        } else {
                            fresh = arroy::Writer::<D>::new(arroy_db::<D>(s.db), 0, 2);
                            &fresh
                        };
                        outs.push(apply(w, wtxn.as_mut().unwrap(), op));
                    }
                }
            }
            let kv = dump(s.db, wtxn.as_ref().unwrap());
            wtxn.take().unwrap().abort();
            (outs, kv)
        };
        let (o1, d1) = run(&a, true);
        let (o2, d2) = run(&b, false);
        histories += 1;
        if o1 != o2 || d1 != d2 {
            let ops: Vec<String> = seq.iter().map(|i| format!("{:?}", alphabet[*i])).collect();
            report.add_violation(Violation::new(
                "RJ/writer-keeps-state",
                format!("history {ops:?}: one Writer kept for the whole history answers {o1:?}, a fresh Writer per call answers {o2:?} (dumps equal: {})", d1 == d2),
            ));
            break;
        }
    }
    report.cov("long_lived_writer_histories", histories);
}

// ------------------------------------------------------------------------------------------

fn c07_cfg(a: u16, b: u16, third: Option<u16>, depth: usize) -> TxnCfg {
    c07_cfg_metrics(a, b, third, depth, Metric::Euclidean, Metric::Cosine)
}

fn c07_cfg_metrics(a: u16, b: u16, third: Option<u16>, depth: usize, ma: Metric, mb: Metric) -> TxnCfg {
    let dim = 2;
    let vecs = plain_vectors(dim);
    let mut menu = Vec::new();
    let mut indexes = vec![(a, ma, dim), (b, mb, dim)];
    for (index, _, _) in indexes.clone() {
        menu.push(Action::Add { index, id: 0, vec: vecs[0].clone() });
        menu.push(Action::Add { index, id: 1, vec: vecs[1].clone() });
        menu.push(Action::Add { index, id: u32::MAX, vec: vecs[2].clone() });
        menu.push(Action::Append { index, id: u32::MAX - 1, vec: vecs[1].clone() });
        menu.push(Action::Del { index, id: 0 });
        menu.push(Action::Clear { index });
        menu.push(build(index, None, Some(1), None));
        menu.push(build(index, Some(2), None, None));
        menu.push(Action::ChangeMetric { index, to: Metric::Manhattan });
    }
    if let Some(t) = third {
        indexes.push((t, Metric::DotProduct, dim));
        menu.push(Action::Add { index: t, id: u32::MAX, vec: vecs[0].clone() });
        menu.push(build(t, None, None, None));
    }
    TxnCfg {
        indexes,
        menu,
        prefix: Vec::new(),
        transactions: false,
        max_depth: depth,
        // the forest oracle too: a build that *reads* a neighbour's nodes damages the index being built
        obs: TxnObs { isolation: true, forest: true, ..Default::default() },
        probe_ids: vec![0, 1, u32::MAX - 1, u32::MAX],
        label: format!("idx{a}-{}-idx{b}-{}{}-depth{depth}", ma.short(), mb.short(), third.map_or(String::new(), |t| format!("-idx{t}"))),
    }
}

pub fn c07(tier: Tier) -> i32 {
    let mut report = Report::new("C07", tier, "model_checking");
    report.assume("LMDB/heed; roaring; rayon");
    let lattice = [0u16, 1, 255, 256, 257, 65534, 65535];
    let mut runs = Vec::new();
    match tier {
        Tier::Quick => {
            for (a, b) in [(0u16, 1u16), (255, 256), (256, 257), (65534, 65535), (65535, 0), (1, 255)] {
                runs.push((c07_cfg(a, b, None, 6), caps(12)));
            }
            for a in lattice {
                for b in lattice {
                    if a != b {
                        runs.push((c07_cfg(a, b, None, 4), caps(6)));
                    }
                }
            }
            runs.push((c07_cfg(255, 256, Some(257), 5), caps(10)));
            // the metrics that rewrite their leaves while building (DotProduct's preprocessing pass) or that
            // store quantised vectors, as the lower and as the higher index of a pair
            for (ma, mb) in [(Metric::DotProduct, Metric::Euclidean), (Metric::Manhattan, Metric::DotProduct), (Metric::BqCosine, Metric::DotProduct), (Metric::DotProduct, Metric::BqEuclidean)] {
                runs.push((c07_cfg_metrics(0, 1, None, 5, ma, mb), caps(10)));
                runs.push((c07_cfg_metrics(65534, 65535, None, 4, ma, mb), caps(6)));
            }
        }
        Tier::Thorough => {
            for a in lattice {
                for b in lattice {
                    if a != b {
                        runs.push((c07_cfg(a, b, None, 7), caps(30)));
                    }
                }
            }
            for (a, b, c) in [(0u16, 1u16, 2u16), (255, 256, 257), (65533, 65534, 65535)] {
                runs.push((c07_cfg(a, b, Some(c), 6), caps(120)));
            }
            for ma in M7 {
                for mb in M7 {
                    if ma != mb && (ma == Metric::DotProduct || mb == Metric::DotProduct || ma.is_bq() != mb.is_bq()) {
                        runs.push((c07_cfg_metrics(255, 256, None, 6, ma, mb), caps(30)));
                    }
                }
            }
        }
    }
    run_txn(&mut report, "C07", runs);
    report.cov("oracle", "after every action on one index (add, append, delete, clear, two build configurations, metric change; ids 0, 1, u32::MAX-1, u32::MAX) in every interleaving of operations on the index pair / triple: the raw sub-dump of every other index is byte-identical to before, and no key outside the declared indexes exists");
    report.finish()
}

// ------------------------------------------------------------------------------------------

fn c18_cfg(src: Metric, dim: usize, targets: &[Metric], depth: usize) -> TxnCfg {
    c18_cfg_from(src, dim, targets, depth, false)
}

/// `populated`: the index under test already holds four items (more than a bucket) and a forest
/// built with the automatic tree count when the exploration starts, so that the bounded depth is
/// spent after the metric change (change, then build without any pending update, ...).
fn c18_cfg_from(src: Metric, dim: usize, targets: &[Metric], depth: usize, populated: bool) -> TxnCfg {
    // the index under test sits between two populated, built neighbours
    let (lo, mid, hi) = (6u16, 7u16, 8u16);
    let vecs = plain_vectors(dim);
    let mut prefix = vec![
        Action::Add { index: lo, id: 0, vec: vecs[0].clone() },
        Action::Add { index: lo, id: u32::MAX, vec: vecs[1].clone() },
        Action::Add { index: lo, id: 3, vec: vecs[2].clone() },
        build(lo, Some(2), Some(1), None),
        Action::Add { index: hi, id: 0, vec: vecs[1].clone() },
        Action::Add { index: hi, id: 1, vec: vecs[2].clone() },
        Action::Add { index: hi, id: u32::MAX, vec: vecs[0].clone() },
        build(hi, Some(2), Some(1), None),
        Action::Commit,
    ];
    if populated {
        prefix.pop();
        for (k, id) in [0u32, 1, 2, 5, u32::MAX].iter().enumerate() {
            let mut v = vecs[k % 3].clone();
            if k >= 3 {
                v[0] = (f32::from_bits(v[0]) + 1.0).to_bits();
            }
            prefix.push(Action::Add { index: mid, id: *id, vec: v });
        }
        prefix.push(build(mid, None, None, None));
        // the higher neighbour's metric was changed and it was not rebuilt: it holds nothing but item keys
        prefix.push(Action::ChangeMetric { index: hi, to: Metric::Manhattan });
        prefix.push(Action::Commit);
    }
    let mut menu = Vec::new();
    for (k, id) in [0u32, 1, 2, u32::MAX].iter().enumerate() {
        menu.push(Action::Add { index: mid, id: *id, vec: vecs[k % 3].clone() });
    }
    menu.push(Action::Add { index: mid, id: 1, vec: vecs[0].clone() });
    menu.push(Action::Del { index: mid, id: 0 });
    menu.push(build(mid, None, None, None));
    menu.push(build(mid, Some(2), Some(1), None));
    for t in targets {
        menu.push(Action::ChangeMetric { index: mid, to: *t });
    }
    TxnCfg {
        indexes: vec![(lo, Metric::Cosine, dim), (mid, src, dim), (hi, Metric::BqEuclidean, dim)],
        menu,
        prefix,
        transactions: false,
        max_depth: depth,
        obs: TxnObs { store: true, staleness: true, isolation: true, forest: true, metric_change: true, ..Default::default() },
        probe_ids: vec![0, 1, 2, u32::MAX],
        label: format!("{}-d{dim}-depth{depth}{}", src.short(), if populated { "-populated" } else { "" }),
    }
}

/// "Removes the old forest" when the forest has no metadata: a first build is cancelled at poll n
/// (every n) and committed all the same — the index then holds tree nodes but no metadata and still
/// asks for a build —, then the metric is changed: no tree node and no metadata may remain, and the
/// build under the new metric must give a valid forest (S, no leftover of the old metric).
fn cancelled_then_changed(report: &mut Report, tier: Tier) {
    use crate::common::{arroy_db, catch, Scratch, Violation};
    use crate::exec::{exec, IndexTypes, Outcome};
    use crate::layout::{decode_index, parse_key, KIND_METADATA, KIND_TREE};
    let dim = 2usize;
    let configs: Vec<(u32, usize, usize)> = if tier == Tier::Quick { vec![(10, 2, 1)] } else { vec![(10, 2, 1), (30, 3, 2), (7, 1, 1)] };
    let mut positions = 0u64;
    let mut with_nodes = 0u64;
    let mut found: Option<Violation> = None;
    crate::explore::in_single_thread_pool(|| {
        'all: for (n_items, n_trees, cap) in &configs {
            let mut n = 0u64;
            loop {
                let s = Scratch::new("c18c");
                let mut types = IndexTypes::new();
                types.insert(0, (Metric::Euclidean, dim));
                let mut wtxn = s.env.write_txn().unwrap();
                let mut expect = std::collections::BTreeSet::new();
                for i in 0..*n_items {
                    let v: Vec<u32> = vec![(((i * 7) % 11) as f32 - 5.5).to_bits(), (((i * 3) % 7) as f32 - 3.0).to_bits()];
                    exec(s.db, &mut wtxn, &mut types, &Action::Add { index: 0, id: i, vec: v });
                    expect.insert(i);
                }
                let (o, _) = exec(s.db, &mut wtxn, &mut types, &build(0, Some(*n_trees), Some(*cap), Some(n)));
                if matches!(o, Outcome::Unit) {
                    break;
                }
                wtxn.commit().unwrap();
                positions += 1;
                let mut wtxn = s.env.write_txn().unwrap();
                let nodes_before = s.dump(&wtxn).iter().filter(|(k, _)| parse_key(k).map_or(false, |p| p.kind == KIND_TREE)).count();
                if nodes_before > 0 {
                    with_nodes += 1;
                }
                let what = format!("{n_items} items, first build ({n_trees} trees, capacity {cap}) cancelled from poll {n} on and committed ({nodes_before} tree nodes, no metadata), then euclidean -> manhattan");
                let r = catch(|| -> Result<(), (String, String)> {
                    let w = arroy::Writer::<arroy::distances::Euclidean>::new(arroy_db::<arroy::distances::Euclidean>(s.db), 0, dim);
                    let w = w.prepare_changing_distance::<arroy::distances::Manhattan>(&mut wtxn).map_err(|e| ("MC/change-failed".to_string(), e.to_string()))?;
                    let left: Vec<String> = s.dump(&wtxn).iter().filter_map(|(k, _)| parse_key(k).ok()).filter(|k| k.kind == KIND_TREE || (k.kind == KIND_METADATA && k.id == 0)).map(|k| format!("({},{},{})", k.index, k.kind, k.id)).take(8).collect();
                    if !left.is_empty() {
                        return Err(("MC/forest-left".into(), format!("after the change tree/metadata keys remain: {left:?}")));
                    }
                    let mut rng = <rand::rngs::StdRng as rand::SeedableRng>::seed_from_u64(verif_seed());
                    w.builder(&mut rng).n_trees(*n_trees).split_after(*cap).build(&mut wtxn).map_err(|e| ("MC/build-failed".to_string(), e.to_string()))?;
                    let kv = s.dump(&wtxn);
                    let ix = decode_index(&kv, 0, Metric::Manhattan, dim).map_err(|e| ("F/undecodable".to_string(), e))?;
                    crate::oracle::structure(&ix, &expect, Metric::Manhattan, dim).map(|_| ())
                });
                match r {
                    Ok(Ok(())) => {}
                    Ok(Err((c, m))) => {
                        found = Some(Violation::new(c, format!("{what}: {m}")));
                        break 'all;
                    }
                    Err(p) => {
                        found = Some(Violation::new(format!("MC/panicked:{}", p.site()), format!("{what}: {} {}", p.location, p.message)));
                        break 'all;
                    }
                }
                n += 1;
            }
        }
    });
    if let Some(v) = found {
        report.add_violation(v);
    }
    report.cov("cancelled_then_changed_positions", positions);
    report.cov("cancelled_then_changed_with_tree_nodes", with_nodes);
}

pub fn c18(tier: Tier) -> i32 {
    let mut report = Report::new("C18", tier, "model_checking");
    report.assume("LMDB/heed; roaring; rayon");
    let mut runs = Vec::new();
    match tier {
        Tier::Quick => {
            for m in M7 {
                runs.push((c18_cfg(m, 3, &M7, 5), caps(6)));
                runs.push((c18_cfg_from(m, 3, &M7, 3, true), caps(6)));
            }
        }
        Tier::Thorough => {
            for m in M7 {
                runs.push((c18_cfg(m, 3, &M7, 6), caps(150)));
                runs.push((c18_cfg(m, 65, &M7, 5), caps(60)));
                runs.push((c18_cfg(m, 1, &M7, 5), caps(60)));
                runs.push((c18_cfg_from(m, 3, &M7, 4, true), caps(60)));
                runs.push((c18_cfg_from(m, 65, &M7, 3, true), caps(60)));
            }
        }
    }
    run_txn(&mut report, "C18", runs);
    cancelled_then_changed(&mut report, tier);
    report.cov("oracle", "for every cancel position of a first build that is committed all the same (tree nodes without metadata), a metric change removes every tree node and the next build gives a valid forest without leftovers; every history of adds, overwrites, deletes, two build configurations and prepare_changing_distance to each of the 7 metrics (all 49 ordered pairs, chains included) on an index between two built neighbours, starting from an empty index and from one that already holds a five-item forest built with the automatic tree count: after the change the items and vectors equal the model as representable (API and raw leaf bytes), no tree or metadata key of the index remains, the index needs a build and no longer opens, the neighbours are byte-identical; same metric => dump unchanged; after the next build the structure oracle S and the exact-search oracle X hold under the new metric and opening under another metric fails");
    report.finish()
}
