//! C09 — a crash at any moment leaves the last committed index intact (engine E3).
//!
//! A child process (`verif crash-child`) runs a scripted history of several committed versions
//! and is killed with SIGKILL at one enumerated point: the n-th event of the script (every
//! API boundary, every poll of the cancel callback, every progress call) or, through the
//! LD_PRELOAD shim, right before the n-th write-family system call on data.mdb (which
//! includes the three steps of every commit). The parent reopens the directory.

use std::collections::BTreeMap;
use std::path::{Path, PathBuf};
use std::sync::atomic::{AtomicI64, AtomicU64, Ordering};
use std::sync::Mutex;

use rand::rngs::StdRng;
use rand::SeedableRng;
use serde_json::json;

use crate::common::{arroy_db, catch, dump, floats_of, fresh_scratch_dir, verif_root, Dec, Enc, Kv, Metric, RawDb, Report, Tier, Violation};
use crate::layout::decode_index;
use crate::oracle::{self, check_result, Exactness};


#[derive(Clone, Copy)]
struct Scenario {
    dim: usize,
    base_items: u32,
    indexes: u16,
    versions: usize,
    /// the forest collapses into a single bucket in version 2 and grows again afterwards
    collapse: bool,
    /// available_memory given to every build (several insertion batches when more than 200 items are pending)
    memory: Option<usize>,
    metric: Metric,
    /// the version that starts with `Writer::clear` and re-adds everything (a full re-index)
    clear_in: Option<usize>,
}

fn scenario(name: &str) -> Scenario {
    match name {
        // a metric whose build rewrites every leaf (the preprocessing pass of DotProduct)
        "dot" => Scenario { dim: 3, base_items: 9, indexes: 2, versions: 3, collapse: false, memory: None, metric: Metric::DotProduct, clear_in: None },
        // a full re-index: version 2 clears the index and adds everything again
        "reindex" => Scenario { dim: 2, base_items: 10, indexes: 2, versions: 3, collapse: false, memory: None, metric: Metric::Euclidean, clear_in: Some(2) },
        "small" => Scenario { dim: 2, base_items: 6, indexes: 1, versions: 3, collapse: false, memory: None, metric: Metric::Euclidean, clear_in: None },
        "collapse" => Scenario { dim: 4, base_items: 14, indexes: 2, versions: 4, collapse: true, memory: None, metric: Metric::Euclidean, clear_in: None },
        // wide vectors: the split nodes a build writes to its scratch file exceed the 8 KiB of a buffered writer well
        // before the phase ends, so a kill inside IncrementalIndexLargeDescendants leaves a partly written file behind
        "wide" => Scenario { dim: 64, base_items: 330, indexes: 1, versions: 2, collapse: false, memory: None, metric: Metric::Euclidean, clear_in: None },
        "large" => Scenario { dim: 8, base_items: 300, indexes: 2, versions: 4, collapse: false, memory: None, metric: Metric::Euclidean, clear_in: None },
        // several insertion batches per build: 250 items, then 450 more, under a zero memory hint
        "batches" => Scenario { dim: 4, base_items: 210, indexes: 1, versions: 3, collapse: false, memory: Some(0), metric: Metric::Euclidean, clear_in: None },
        _ => Scenario { dim: 24, base_items: 1500, indexes: 3, versions: 4, collapse: false, memory: None, metric: Metric::Euclidean, clear_in: None },
    }
}

fn vec_for(sc: &Scenario, index: u16, id: u32, salt: u32) -> Vec<u32> {
    (0..sc.dim)
        .map(|j| {
            let x = ((id.wrapping_mul(7).wrapping_add(j as u32 * 13).wrapping_add(salt * 5).wrapping_add(index as u32 * 3)) % 19) as f32 - 9.0;
            (if j == 0 && x == 0.0 { 1.0 } else { x }).to_bits()
        })
        .collect()
}

/// The item operations of version `v` (1-based) on `index`: (id, Some(vector) = add, None = delete).
fn ops_of(sc: &Scenario, index: u16, v: usize) -> Vec<(u32, Option<Vec<u32>>)> {
    let n = sc.base_items;
    if sc.clear_in == Some(v) {
        // after the clear: everything again, with other vectors, plus a few new ids
        return (0..n + 3).map(|id| (id, Some(vec_for(sc, index, id, 5)))).collect();
    }
    if sc.collapse {
        // v1: a forest; v2: everything but three items deleted (single bucket); v3: grown again; v4: emptied
        return match v {
            1 => (0..n).map(|id| (id, Some(vec_for(sc, index, id, 1)))).collect(),
            2 => (3..n).map(|id| (id, None)).collect(),
            3 => (100..100 + n).map(|id| (id, Some(vec_for(sc, index, id, 3)))).collect(),
            _ => (0..3).chain(100..100 + n).map(|id| (id, None)).collect(),
        };
    }
    if sc.memory.is_some() {
        return match v {
            1 => (0..n).map(|id| (id, Some(vec_for(sc, index, id, 1)))).collect(),
            2 => (n..n + 420).map(|id| (id, Some(vec_for(sc, index, id, 2)))).collect(),
            _ => (0..n).filter(|id| id % 4 == 0).map(|id| (id, None)).chain((2000..2210).map(|id| (id, Some(vec_for(sc, index, id, 3))))).collect(),
        };
    }
    match v {
        1 => (0..n).map(|id| (id, Some(vec_for(sc, index, id, 1)))).collect(),
        2 => {
            let mut o: Vec<(u32, Option<Vec<u32>>)> = (0..n).filter(|id| id % 3 == 1).map(|id| (id, None)).collect();
            o.push((2, Some(vec_for(sc, index, 2, 2))));
            o.extend((n..n + n / 6 + 1).map(|id| (id, Some(vec_for(sc, index, id, 2)))));
            o
        }
        3 => vec![(n + 100, Some(vec_for(sc, index, n + 100, 3)))],
        _ => {
            let mut o: Vec<(u32, Option<Vec<u32>>)> = (0..n).filter(|id| id % 5 == 0).map(|id| (id, None)).collect();
            o.push((u32::MAX, Some(vec_for(sc, index, 7, 4))));
            o
        }
    }
}

fn trees_of(v: usize) -> usize {
    match v {
        1 | 2 => 2,
        3 => 3,
        _ => 1,
    }
}

fn models(sc: &Scenario) -> Vec<BTreeMap<u16, BTreeMap<u32, Vec<u32>>>> {
    let mut out = vec![BTreeMap::new()];
    let mut cur: BTreeMap<u16, BTreeMap<u32, Vec<u32>>> = (0..sc.indexes).map(|i| (i, BTreeMap::new())).collect();
    for v in 1..=sc.versions {
        for index in 0..sc.indexes {
            if sc.clear_in == Some(v) {
                cur.get_mut(&index).unwrap().clear();
            }
            for (id, op) in ops_of(sc, index, v) {
                match op {
                    Some(vec) => {
                        cur.get_mut(&index).unwrap().insert(id, vec);
                    }
                    None => {
                        cur.get_mut(&index).unwrap().remove(&id);
                    }
                }
            }
        }
        out.push(cur.clone());
    }
    out
}

fn write_kv(path: &Path, kv: &Kv) {
    let mut e = Enc::default();
    e.kv(kv);
    std::fs::write(path, e.0).expect("write dump");
}

fn read_kv(path: &Path) -> Option<Kv> {
    std::fs::read(path).ok().map(|b| Dec::new(&b).kv())
}

/// Entry point of the child process.
pub fn child(dir: &str, scenario_name: &str, kill_at_event: i64) -> i32 {
    use std::io::Write;
    let sc = scenario(scenario_name);
    let dir = PathBuf::from(dir);
    // a restarted process continues the history after the last version found on disk
    let resume_after: usize = std::env::var("VERIF_CRASH_RESUME_AFTER").ok().and_then(|s| s.parse().ok()).unwrap_or(0);
    let tmp = dir.join("tmp");
    let _ = std::fs::create_dir_all(&tmp);
    let env = unsafe { heed::EnvOpenOptions::new().map_size(256 << 20).open(dir.join("env")) }.expect("open env");
    let mut w = env.write_txn().unwrap();
    let db: RawDb = env.create_database(&mut w, None).unwrap();
    w.commit().unwrap();
    let mut ack = std::fs::OpenOptions::new().create(true).append(true).open(dir.join("ack.log")).unwrap();
    let events = AtomicI64::new(0);
    let reference = std::env::var("VERIF_CRASH_REF").is_ok();
    let y = |_label: &'static str| {
        let n = events.fetch_add(1, Ordering::SeqCst);
        if n == kill_at_event {
            unsafe {
                libc::kill(libc::getpid(), libc::SIGKILL);
            }
            loop {
                std::thread::sleep(std::time::Duration::from_secs(1));
            }
        }
    };
    writeln!(ack, "START").unwrap();
    let pool = rayon::ThreadPoolBuilder::new().num_threads(1).build().unwrap();
    pool.install(|| {
        for v in (resume_after + 1)..=sc.versions {
            let mut wtxn = env.write_txn().unwrap();
            for index in 0..sc.indexes {
              crate::with_metric!(sc.metric, D => {
                let mut writer = arroy::Writer::<D>::new(arroy_db::<D>(db), index, sc.dim);
                // build scratch files go to a directory that survives the kill, like a real deployment's
                writer.set_tmpdir(&tmp);
                if sc.clear_in == Some(v) {
                    y("item-op");
                    writer.clear(&mut wtxn).unwrap();
                }
                for (id, op) in ops_of(&sc, index, v) {
                    y("item-op");
                    match op {
                        Some(vec) => writer.add_item(&mut wtxn, id, &floats_of(&vec)).unwrap(),
                        None => {
                            writer.del_item(&mut wtxn, id).unwrap();
                        }
                    }
                }
                y("build");
                let mut rng = StdRng::seed_from_u64(v as u64 * 10 + index as u64);
                let mut b = writer.builder(&mut rng);
                b.n_trees(trees_of(v)).split_after(if sc.dim == 2 { 2 } else if sc.collapse { 4 } else { 16 });
                if let Some(m) = sc.memory {
                    b.available_memory(m);
                }
                b.cancel(|| {
                    y("cancel-poll");
                    false
                });
                b.progress(|_| y("progress"));
                b.build(&mut wtxn).unwrap();
              });
            }
            y("before-commit");
            writeln!(ack, "COMMITTING {v}").unwrap();
            ack.flush().unwrap();
            wtxn.commit().unwrap();
            y("commit-returned");
            writeln!(ack, "ACK {v}").unwrap();
            ack.flush().unwrap();
            y("after-commit");
            if reference {
                let r = env.read_txn().unwrap();
                write_kv(&dir.join(format!("ref-{v}.bin")), &dump(db, &r));
            }
        }
    });
    writeln!(ack, "DONE events={}", events.load(Ordering::SeqCst)).unwrap();
    0
}

struct ChildRun {
    killed: bool,
    last_ack: usize,
    committing: Option<usize>,
    done_events: Option<u64>,
}

fn run_child(dir: &Path, scenario_name: &str, kill_at_event: i64, shim_kill_at: Option<i64>, shim_log: Option<&Path>, reference: bool) -> Result<ChildRun, String> {
    run_child_from(dir, scenario_name, kill_at_event, shim_kill_at, shim_log, reference, None)
}

fn run_child_from(dir: &Path, scenario_name: &str, kill_at_event: i64, shim_kill_at: Option<i64>, shim_log: Option<&Path>, reference: bool, resume_after: Option<usize>) -> Result<ChildRun, String> {
    std::fs::create_dir_all(dir.join("env")).map_err(|e| e.to_string())?;
    let exe = std::env::current_exe().map_err(|e| e.to_string())?;
    let mut cmd = std::process::Command::new(exe);
    cmd.args(["crash-child", dir.to_str().unwrap(), scenario_name, &kill_at_event.to_string()]);
    cmd.stdin(std::process::Stdio::null()).stdout(std::process::Stdio::null()).stderr(std::process::Stdio::piped());
    if shim_kill_at.is_some() || shim_log.is_some() {
        let shim = verif_root().join("target").join("crashshim.so");
        if !shim.exists() {
            return Err(format!("{shim:?} is missing (built by ./check build)"));
        }
        cmd.env("LD_PRELOAD", shim);
        if let Some(n) = shim_kill_at {
            cmd.env("CRASHSHIM_KILL_AT", n.to_string());
        }
        if let Some(l) = shim_log {
            cmd.env("CRASHSHIM_LOG", l);
        }
    }
    if reference {
        cmd.env("VERIF_CRASH_REF", "1");
    }
    if let Some(v) = resume_after {
        cmd.env("VERIF_CRASH_RESUME_AFTER", v.to_string());
    }
    let out = cmd.output().map_err(|e| e.to_string())?;
    use std::os::unix::process::ExitStatusExt;
    let killed = out.status.signal() == Some(libc::SIGKILL);
    if !killed && !out.status.success() {
        return Err(format!("the child ended with {:?}: {}", out.status, String::from_utf8_lossy(&out.stderr).lines().rev().take(4).collect::<Vec<_>>().join(" | ")));
    }
    let ack = std::fs::read_to_string(dir.join("ack.log")).unwrap_or_default();
    let mut last_ack = 0usize;
    let mut committing = None;
    let mut done_events = None;
    for line in ack.lines() {
        if let Some(v) = line.strip_prefix("ACK ") {
            last_ack = v.trim().parse().unwrap_or(0);
            committing = None;
        } else if let Some(v) = line.strip_prefix("COMMITTING ") {
            committing = v.trim().parse().ok();
        } else if let Some(v) = line.strip_prefix("DONE events=") {
            done_events = v.trim().parse().ok();
        }
    }
    Ok(ChildRun { killed, last_ack, committing, done_events })
}

/// Reopens the environment the child left behind and judges it.
fn judge(dir: &Path, sc: &Scenario, run: &ChildRun, refs: &[Kv], models: &[BTreeMap<u16, BTreeMap<u32, Vec<u32>>>]) -> Result<usize, (String, String)> {
    let r = catch(|| -> Result<usize, (String, String)> {
        let env = unsafe { heed::EnvOpenOptions::new().map_size(256 << 20).open(dir.join("env")) }
            .map_err(|e| ("K/reopen-failed".to_string(), format!("the environment does not reopen: {e}")))?;
        let rtxn = env.read_txn().map_err(|e| ("K/reopen-failed".to_string(), e.to_string()))?;
        let db: Option<RawDb> = env.open_database(&rtxn, None).map_err(|e| ("K/reopen-failed".to_string(), e.to_string()))?;
        let got = match db {
            Some(db) => dump(db, &rtxn),
            None => Vec::new(),
        };
        let mut allowed = vec![run.last_ack];
        if let Some(c) = run.committing {
            allowed.push(c);
        }
        let seen = allowed.iter().copied().find(|v| refs[*v] == got);
        let version = match seen {
            Some(v) => v,
            None => {
                let like: Vec<usize> = (0..refs.len()).filter(|v| refs[*v] == got).collect();
                return Err((
                    "K/not-a-committed-version".into(),
                    format!("last acknowledged commit {}, commit in flight {:?}: the reopened database is {}", run.last_ack, run.committing,
                        if like.is_empty() { format!("no committed version at all ({} keys)", got.len()) } else { format!("version {like:?}") }),
                ));
            }
        };
        if version > 0 {
            let db = db.unwrap();
            for index in 0..sc.indexes {
              crate::with_metric!(sc.metric, D => {
                let model = &models[version][&index];
                let reader = arroy::Reader::<D>::open(&rtxn, index, arroy_db::<D>(db)).map_err(|e| ("K/open-failed".to_string(), format!("version {version} index {index} does not open: {e}")))?;
                let ix = decode_index(&got, index, sc.metric, sc.dim).map_err(|e| ("F/undecodable".to_string(), e))?;
                oracle::structure(&ix, &model.keys().copied().collect(), sc.metric, sc.dim).map_err(|(c, m)| (format!("K/{c}"), m))?;
                let n = model.len().min(10);
                for q in [vec_for(sc, index, 3, 1), vec_for(sc, index, 11, 2)] {
                    let res = crate::hist::query::<D>(&reader, &rtxn, None, Some(&floats_of(&q)), n, Some(usize::MAX), None, None)
                        .map_err(|e| ("K/query-failed".to_string(), e))?
                        .unwrap();
                    check_result(sc.metric, sc.dim, model, &q, n, None, &res, Exactness::Exact, true).map_err(|(c, m)| (format!("K/{c}"), m))?;
                }
                Ok::<(), (String, String)>(())
              })?;
            }
        }
        Ok(version)
    });
    match r {
        Ok(x) => x,
        Err(p) => Err((format!("K/reopen-panicked:{}", p.site()), format!("{}: {}", p.location, p.message))),
    }
}

pub fn run(tier: Tier) -> i32 {
    let mut report = Report::new("C09", tier, "fault_enumeration");
    report.assume("process kill, not power loss: the page cache survives; torn sectors and lost unsynced blocks exercise LMDB, which the property trusts");
    report.assume("kill points are the script's events (API boundaries, cancel polls, progress calls) and the boundaries of the write-family system calls on data.mdb");
    let names: &[&str] = if tier == Tier::Quick { &["small", "dot", "reindex", "collapse", "batches", "wide", "large"] } else { &["small", "dot", "reindex", "collapse", "batches", "wide", "large", "xl"] };
    for n in names {
        // quick tier: in the three bulk scenarios the history is resumed after every 6th event kill
        // (and after every system-call kill); everywhere else after every kill
        let resume_every = if tier == Tier::Quick && (*n == "large" || *n == "batches" || *n == "wide") { 6 } else { 1 };
        run_scenario(&mut report, n, resume_every);
        if !report.violations.is_empty() || !report.machinery_errors.is_empty() {
            break;
        }
    }
    report.cov("exhaustive", true);
    report.cov("rule", "one child process per kill point: every event of the scripted history (each item operation, each cancel poll, each progress call, before/after each commit) and the boundary before every write-family system call on data.mdb (pwrite / fdatasync / pwrite of each commit, counted by the LD_PRELOAD shim); a point is non-trivial when the child was really killed there; the reopened raw dump must equal the reference dump of the last acknowledged version, or of the version whose commit was in flight, and then open, satisfy S and answer exact queries; a restarted process then redoes the remaining versions on what it found (same temp directory) and must end byte-identical to the uninterrupted run");
    report.finish()
}

fn run_scenario(report: &mut Report, scenario_name: &str, resume_every: i64) {
    use rayon::prelude::*;
    let sc = scenario(scenario_name);
    let models = models(&sc);
    let base = fresh_scratch_dir("c09");
    // reference run, with the shim logging the system calls
    let ref_dir = base.join("ref");
    let log = base.join("syscalls.log");
    let reference = match run_child(&ref_dir, scenario_name, -1, None, Some(&log), true) {
        Ok(r) => r,
        Err(e) => {
            report.machinery_error(format!("reference child: {e}"));
            return;
        }
    };
    let total_events = reference.done_events.unwrap_or(0) as i64;
    let mut refs: Vec<Kv> = vec![Vec::new()];
    for v in 1..=sc.versions {
        match read_kv(&ref_dir.join(format!("ref-{v}.bin"))) {
            Some(kv) => refs.push(kv),
            None => {
                report.machinery_error(format!("the reference child left no dump of version {v}"));
                return;
            }
        }
    }
    let syscalls: Vec<String> = std::fs::read_to_string(&log).unwrap_or_default().lines().map(|l| l.to_string()).collect();
    let total_syscalls = syscalls.len() as i64;
    if total_events == 0 || total_syscalls == 0 {
        report.machinery_error(format!("the reference run saw {total_events} events and {total_syscalls} intercepted system calls"));
        return;
    }
    // the reference run itself must end in the last version
    if let Err((c, m)) = judge(&ref_dir, &sc, &reference, &refs, &models) {
        report.add_violation(Violation::new(c, format!("uninterrupted run: {m}")));
    }
    // enumerate
    #[derive(Clone, Copy)]
    enum Point {
        Event(i64),
        Syscall(i64),
    }
    let mut points: Vec<Point> = (0..total_events).map(Point::Event).collect();
    points.extend((0..total_syscalls).map(Point::Syscall));
    let interrupted = AtomicU64::new(0);
    let resumed_n = AtomicU64::new(0);
    let mid_commit = AtomicU64::new(0);
    let versions_seen: Mutex<BTreeMap<(usize, usize), u64>> = Mutex::new(BTreeMap::new());
    let first: Mutex<Option<Violation>> = Mutex::new(None);
    let machinery: Mutex<Vec<String>> = Mutex::new(Vec::new());
    let shown: Mutex<Vec<serde_json::Value>> = Mutex::new(Vec::new());
    points.par_iter().enumerate().for_each(|(i, p)| {
        if first.lock().unwrap().is_some() {
            return;
        }
        let dir = base.join(format!("p{i}"));
        let (ev, sys, name) = match p {
            Point::Event(n) => (*n, None, format!("event {n} of {total_events}")),
            Point::Syscall(n) => (-1, Some(*n), format!("before system call {n} of {total_syscalls} ({})", syscalls[*n as usize])),
        };
        match run_child(&dir, scenario_name, ev, sys, None, false) {
            Ok(run) => {
                if !run.killed {
                    machinery.lock().unwrap().push(format!("the child was not killed at {name}"));
                } else {
                    interrupted.fetch_add(1, Ordering::Relaxed);
                    if run.committing.is_some() {
                        mid_commit.fetch_add(1, Ordering::Relaxed);
                    }
                    let judged = judge(&dir, &sc, &run, &refs, &models).and_then(|v| {
                        // the restarted process continues the history on what it found (same temp
                        // directory): the final content must be the one of the uninterrupted run
                        let resume = match p {
                            Point::Event(n) => n % resume_every == 0,
                            Point::Syscall(_) => true,
                        };
                        if v < sc.versions && resume {
                            let resumed = run_child_from(&dir, scenario_name, -1, None, None, false, Some(v)).map_err(|e| ("K/resume-failed".to_string(), format!("continuing after the restart from version {v}: {e}")))?;
                            let fin = ChildRun { killed: false, last_ack: sc.versions, committing: None, done_events: resumed.done_events };
                            if resumed.last_ack != sc.versions {
                                return Err(("K/resume-failed".into(), format!("the restarted process stopped after version {}", resumed.last_ack)));
                            }
                            judge(&dir, &sc, &fin, &refs, &models).map_err(|(c, m)| (c.replace("K/", "K/after-restart:"), format!("after restarting from version {v} and redoing the remaining versions: {m}")))?;
                            resumed_n.fetch_add(1, Ordering::Relaxed);
                        }
                        Ok(v)
                    });
                    match judged {
                        Ok(v) => {
                            *versions_seen.lock().unwrap().entry((run.last_ack, v)).or_insert(0) += 1;
                            // a few actual kill points for the evidence: the first ones, and those inside a commit
                            if i < 2 || run.committing.is_some() {
                                let mut s = shown.lock().unwrap();
                                if s.len() < 6 {
                                    s.push(json!({"scenario": scenario_name, "killed_at": name, "last_acknowledged_commit": run.last_ack, "commit_in_flight": run.committing, "version_found_after_reopen": v}));
                                }
                            }
                        }
                        Err((c, m)) => {
                            let mut f = first.lock().unwrap();
                            if f.is_none() {
                                *f = Some(Violation {
                                    signature: c,
                                    what: format!("killed at {name}: {m}"),
                                    replay: json!({"engine": "crash", "scenario": scenario_name, "kill_at_event": ev, "kill_before_syscall": sys}),
                                });
                            }
                        }
                    }
                }
            }
            Err(e) => machinery.lock().unwrap().push(format!("child for {name}: {e}")),
        }
        let _ = std::fs::remove_dir_all(&dir);
    });
    let _ = std::fs::remove_dir_all(&base);
    if let Some(v) = first.into_inner().unwrap() {
        report.add_violation(v);
    }
    for m in machinery.into_inner().unwrap().into_iter().take(3) {
        report.machinery_error(m);
    }
    let seen = versions_seen.into_inner().unwrap();
    for s in shown.into_inner().unwrap().into_iter().take(3) {
        report.sample(s);
    }
    report.cov_add("evaluations", points.len() as u64);
    report.cov_add("distinct_nontrivial", interrupted.load(Ordering::Relaxed));
    report.cov_add("killed_with_a_commit_in_flight", mid_commit.load(Ordering::Relaxed));
    report.cov_add("histories_resumed_after_the_kill", resumed_n.load(Ordering::Relaxed));
    let runs = report.coverage.entry("scenarios".to_string()).or_insert_with(|| json!([]));
    runs.as_array_mut().unwrap().push(json!({
        "scenario": scenario_name, "dim": sc.dim, "base_items": sc.base_items, "indexes": sc.indexes, "versions": sc.versions,
        "kill_points_events": total_events, "kill_points_syscalls": total_syscalls,
        "outcomes": seen.iter().map(|((a, v), n)| json!({"last_acknowledged": a, "version_found": v, "kill_points": n})).collect::<Vec<_>>(),
        "syscall_log": syscalls.iter().take(12).collect::<Vec<_>>(),
    }));
}

