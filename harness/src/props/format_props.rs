//! C16 (on-disk format) and C17 (upgrades).

use std::collections::BTreeMap;
use std::time::Duration;

use serde_json::{json, Value};

use crate::common::{arroy_db, catch, floats_of, Kv, Metric, Report, Scratch, Tier, Violation, M7};
use crate::exec::{exec, Action, BuildOpts, IndexTypes};
use crate::explore::{in_single_thread_pool, Caps};
use crate::hist::{HistCfg, Observers};
use crate::layout::{self, decode_index, encode_key, parse_key};
use crate::oracle;
use crate::props::c01::{build_menu, cfg};
use crate::with_metric;

fn caps(secs: u64) -> Caps {
    Caps { max_transitions: 50_000_000, max_wall: Duration::from_secs(secs), max_signatures: 10 }
}

// ------------------------------------------------------------------------------------------
// C16 (a): key lattice

fn key_lattice(report: &mut Report) {
    let indexes = [0u16, 1, 255, 256, 65535];
    let kinds = [0u8, 1, 2, 3];
    let ids = [0u32, 1, 255, 256, 1 << 16, 1 << 24, 1 << 31, u32::MAX];
    let mut tuples = Vec::new();
    for i in indexes {
        for k in kinds {
            for d in ids {
                tuples.push((i, k, d));
            }
        }
    }
    // extra keys from the seed, labelled as sampled in the evidence
    let mut x = crate::common::verif_seed().wrapping_mul(0x9E37_79B9_7F4A_7C15).wrapping_add(1);
    let mut extras = Vec::new();
    for _ in 0..1000 {
        x ^= x << 13;
        x ^= x >> 7;
        x ^= x << 17;
        extras.push(((x >> 48) as u16, ((x >> 40) & 3) as u8, (x & 0xffff_ffff) as u32));
    }
    let mut encoded: Vec<((u16, u8, u32), Vec<u8>)> = Vec::new();
    for (n, t) in tuples.iter().chain(extras.iter()).enumerate() {
        let (i, k, d) = *t;
        let got = match catch(|| arroy::verif::keys::encode(i, k, d)) {
            Ok(Some(b)) => b,
            other => {
                report.add_violation(Violation::new("K/encode-failed", format!("KeyCodec cannot encode {t:?}: {other:?}")));
                return;
            }
        };
        let want = encode_key(i, k, d);
        if got != want {
            report.add_violation(Violation {
                signature: "K/encode".into(),
                what: format!("KeyCodec encodes (index {i}, kind {k}, id {d}) as {got:02x?}, the reference layout is {want:02x?}"),
                replay: json!({"engine": "keys", "tuple": [i, k, d]}),
            });
            return;
        }
        match catch(|| arroy::verif::keys::decode(&got)) {
            Ok(Some(back)) if back == (i, k, d) => {}
            other => {
                report.add_violation(Violation {
                    signature: "K/decode".into(),
                    what: format!("decode(encode({t:?})) = {other:?}"),
                    replay: json!({"engine": "keys", "tuple": [i, k, d]}),
                });
                return;
            }
        }
        if n < tuples.len() {
            encoded.push((*t, got));
        }
    }
    // byte order = (index, kind, id) order for all pairs of the lattice
    let mut pairs = 0u64;
    for (ta, ba) in &encoded {
        for (tb, bb) in &encoded {
            pairs += 1;
            if ta.cmp(tb) != ba.cmp(bb) {
                report.add_violation(Violation {
                    signature: "K/order".into(),
                    what: format!("keys {ta:?} and {tb:?} compare {:?} as tuples but {:?} as bytes", ta.cmp(tb), ba.cmp(bb)),
                    replay: json!({"engine": "keys", "pair": [[ta.0, ta.1, ta.2], [tb.0, tb.1, tb.2]]}),
                });
                return;
            }
        }
    }
    // and LMDB iterates them in that order
    let s = Scratch::new("keys");
    let mut wtxn = s.env.write_txn().unwrap();
    for (_, b) in &encoded {
        s.db.put(&mut wtxn, b, b"").unwrap();
    }
    let order: Vec<(u16, u8, u32)> = s.dump(&wtxn).iter().map(|(k, _)| {
        let p = parse_key(k).unwrap();
        (p.index, p.kind, p.id)
    }).collect();
    let mut sorted: Vec<(u16, u8, u32)> = encoded.iter().map(|(t, _)| *t).collect();
    sorted.sort();
    if order != sorted {
        report.add_violation(Violation::new("K/lmdb-order", "LMDB does not iterate the encoded keys in (index, kind, id) order".to_string()));
    }
    // prefixes: index + kind
    for i in indexes {
        for kind in [1u8, 2, 3] {
            let got = arroy::verif::keys::prefix(i, kind);
            let mut want = i.to_be_bytes().to_vec();
            want.push(kind);
            if got.as_deref() != Some(&want[..]) {
                report.add_violation(Violation::new("K/prefix", format!("prefix(index {i}, kind {kind}) = {got:02x?}, expected {want:02x?}")));
                return;
            }
        }
    }
    report.cov("key_lattice_keys", tuples.len() as u64);
    report.cov("key_lattice_pairs_compared", pairs);
    report.cov("key_extras_sampled", extras.len() as u64);
    report.sample(json!({"key": [65535, 3, u32::MAX], "bytes": format!("{:02x?}", encode_key(65535, 3, u32::MAX))}));
}

// ------------------------------------------------------------------------------------------
// C16 (c): golden fixtures

fn unhex(s: &str) -> Vec<u8> {
    (0..s.len() / 2).map(|i| u8::from_str_radix(&s[2 * i..2 * i + 2], 16).unwrap()).collect()
}

fn fixture_check(metric: Metric, report: &mut Report) -> Option<(usize, usize)> {
    fixture_check_file(metric, metric.short(), true, report)
}

/// `judge_exact`: after the incremental update, also compare exhaustive queries with the f64 definition
/// (not for the small-magnitude fixture, whose norm products the reference treats as vanishing).
fn fixture_check_file(metric: Metric, stem: &str, judge_exact: bool, report: &mut Report) -> Option<(usize, usize)> {
    let path = crate::common::verif_root().join("fixtures").join(format!("{stem}.json"));
    let text = match std::fs::read_to_string(&path) {
        Ok(t) => t,
        Err(e) => {
            report.machinery_error(format!("cannot read fixture {path:?}: {e}"));
            return None;
        }
    };
    let fx: Value = serde_json::from_str(&text).expect("fixture json");
    let dim = fx["dim"].as_u64().unwrap() as usize;
    let kv: Kv = fx["kv"].as_array().unwrap().iter().map(|p| (unhex(p[0].as_str().unwrap()), unhex(p[1].as_str().unwrap()))).collect();
    let fail = |report: &mut Report, clause: &str, msg: String| {
        report.add_violation(Violation {
            signature: format!("{clause}:{stem}"),
            what: format!("fixture {stem}: {msg}"),
            replay: json!({"engine": "fixture", "metric": metric.short(), "fixture": stem}),
        });
    };
    let s = Scratch::new("fixture");
    let mut wtxn = s.env.write_txn().unwrap();
    s.load(&mut wtxn, &kv);
    wtxn.commit().unwrap();
    let mut models: BTreeMap<u16, BTreeMap<u32, Vec<u32>>> = BTreeMap::new();
    for m in fx["models"].as_array().unwrap() {
        let idx = m["index"].as_u64().unwrap() as u16;
        let items = m["items"].as_array().unwrap().iter().map(|it| {
            (it["id"].as_u64().unwrap() as u32, it["bits"].as_array().unwrap().iter().map(|b| b.as_u64().unwrap() as u32).collect::<Vec<u32>>())
        }).collect();
        models.insert(idx, items);
    }
    let opens: Vec<u16> = fx["opens"].as_array().unwrap().iter().map(|x| x.as_u64().unwrap() as u16).collect();
    let needs: Vec<u16> = fx["needs_build"].as_array().unwrap().iter().map(|x| x.as_u64().unwrap() as u16).collect();
    let r = catch(|| -> Result<(usize, usize), (String, String)> {
        with_metric!(metric, D => {
            let rtxn = s.env.read_txn().unwrap();
            let adb = arroy_db::<D>(s.db);
            let mut item_children = 0usize;
            let mut splits = 0usize;
            for idx in &opens {
                let reader = arroy::Reader::<D>::open(&rtxn, *idx, adb).map_err(|e| ("FX/open".to_string(), format!("index {idx} written by the reference version does not open: {e}")))?;
                let model = &models[idx];
                let api_model: BTreeMap<u32, Vec<u32>> = model.iter().map(|(k, v)| (*k, crate::exec::as_representable(metric, v))).collect();
                let ids: Vec<u32> = reader.item_ids().iter().collect();
                if ids != model.keys().copied().collect::<Vec<_>>() {
                    return Err(("FX/items".into(), format!("index {idx}: item ids {ids:?} differ from what the reference version stored")));
                }
                for (id, v) in &api_model {
                    let got = reader.item_vector(&rtxn, *id).map_err(|e| ("FX/api".to_string(), e.to_string()))?.map(|x| crate::common::bits_of(&x));
                    if got.as_ref() != Some(v) {
                        return Err(("FX/vector".into(), format!("index {idx}: item_vector({id}) differs from what the reference version stored")));
                    }
                }
                // C01 on the decoded fixture
                let dix = decode_index(&kv, *idx, metric, dim).map_err(|e| ("FX/decode".to_string(), e))?;
                let expect = model.keys().copied().collect();
                let st = oracle::structure(&dix, &expect, metric, dim).map_err(|(c, m)| (format!("FX/{c}"), m))?;
                item_children += st.item_children;
                splits += st.splits;
                reader.assert_validity(&rtxn).map_err(|e| ("FX/validity".to_string(), e.to_string()))?;
            }
            // recorded queries: same neighbours, same distances
            for q in fx["queries"].as_array().unwrap() {
                let idx = q["index"].as_u64().unwrap() as u16;
                let count = q["count"].as_u64().unwrap() as usize;
                let reader = arroy::Reader::<D>::open(&rtxn, idx, adb).map_err(|e| ("FX/open".to_string(), e.to_string()))?;
                let res = if let Some(id) = q["by_item"].as_u64() {
                    crate::hist::query::<D>(&reader, &rtxn, Some(id as u32), None, count, Some(usize::MAX), None, None)
                } else {
                    let v: Vec<u32> = q["vector_bits"].as_array().unwrap().iter().map(|b| b.as_u64().unwrap() as u32).collect();
                    crate::hist::query::<D>(&reader, &rtxn, None, Some(&floats_of(&v)), count, Some(usize::MAX), None, None)
                };
                let res = match res {
                    Ok(Some(r)) => r,
                    other => return Err(("FX/query".into(), format!("recorded query on index {idx} failed: {other:?}"))),
                };
                let want: Vec<(u32, f32)> = q["answers"].as_array().unwrap().iter().map(|a| (a[0].as_u64().unwrap() as u32, f32::from_bits(a[1].as_u64().unwrap() as u32))).collect();
                // neighbours as a multiset of distances with ids compared where distances are distinct
                if res.len() != want.len() {
                    return Err(("FX/query-len".into(), format!("index {idx}: {} answers, the reference version gave {}", res.len(), want.len())));
                }
                for (j, (g, w)) in res.iter().zip(&want).enumerate() {
                    let tol = 1e-5f32 * w.1.abs().max(1.0);
                    if (g.1 - w.1).abs() > tol {
                        return Err(("FX/query-distance".into(), format!("index {idx}, rank {j}: distance {} vs recorded {}", g.1, w.1)));
                    }
                    let tied = want.iter().filter(|x| (x.1 - w.1).abs() <= tol).count() > 1;
                    if !tied && g.0 != w.0 {
                        return Err(("FX/query-neighbour".into(), format!("index {idx}, rank {j}: item {} vs recorded {}", g.0, w.0)));
                    }
                }
            }
            for idx in &needs {
                match arroy::Reader::<D>::open(&rtxn, *idx, adb) {
                    Err(arroy::Error::NeedBuild(_)) => {}
                    other => return Err(("FX/pending".into(), format!("index {idx} has pending updates, open gave {:?}", other.map(|_| "Ok").map_err(|e| e.to_string())))),
                }
            }
            drop(rtxn);
            // an incremental update and a rebuild of every index must succeed and satisfy S
            let mut wtxn = s.env.write_txn().unwrap();
            let mut types = IndexTypes::new();
            for idx in opens.iter().chain(needs.iter()) {
                types.insert(*idx, (metric, dim));
            }
            for idx in opens.iter().chain(needs.iter()) {
                let model = models.get_mut(idx).unwrap();
                let first = *model.keys().next().unwrap();
                let newv: Vec<u32> = (0..dim).map(|j| (j as f32 - 1.0).to_bits()).collect();
                let acts = vec![
                    Action::Del { index: *idx, id: first },
                    Action::Add { index: *idx, id: 4242, vec: newv.clone() },
                    Action::Build { index: *idx, opts: BuildOpts { n_trees: None, split_after: Some(2), memory: None, seed: 7, cancel_at: None } },
                ];
                model.remove(&first);
                model.insert(4242, newv);
                for a in &acts {
                    let (o, _) = exec(s.db, &mut wtxn, &mut types, a);
                    if !o.is_ok() {
                        return Err(("FX/update".into(), format!("index {idx}: {} on the reference database returned {}", a.to_json(), o.describe())));
                    }
                }
                let after = s.dump(&wtxn);
                let dix = decode_index(&after, *idx, metric, dim).map_err(|e| ("FX/decode".to_string(), e))?;
                let expect = model.keys().copied().collect();
                oracle::structure(&dix, &expect, metric, dim).map_err(|(c, m)| (format!("FX/after-update:{c}"), m))?;
                let qv: Vec<Vec<u32>> = model.values().take(3).cloned().collect();
                let mut wk = crate::explore::Worker { scratch: Scratch::new("fx2"), counters: Default::default(), samples: vec![] };
                if judge_exact {
                    crate::hist::exact_search_on(metric, dim, *idx, s.db, &wtxn, model, &qv, &mut wk).map_err(|(c, m)| (format!("FX/after-update:{c}"), m))?;
                }
            }
            wtxn.abort();
            Ok::<(usize, usize), (String, String)>((item_children, splits))
        })
    });
    match r {
        Ok(Ok(st)) => Some(st),
        Ok(Err((c, m))) => {
            fail(report, &c, m);
            None
        }
        Err(p) => {
            fail(report, &format!("FX/panicked:{}", p.site()), format!("{}: {}", p.location, p.message));
            None
        }
    }
}

pub fn c16(tier: Tier) -> i32 {
    let mut report = Report::new("C16", tier, "model_checking");
    report.assume("LMDB/heed; roaring's portable serialisation; the fixtures under /verif/fixtures were written by the pinned reference commit a7b9462");
    // (a)
    key_lattice(&mut report);
    // (c)
    let stats: Vec<(Metric, usize, usize)> = in_single_thread_pool(|| {
        let mut v = Vec::new();
        for m in M7 {
            if let Some((ic, sp)) = fixture_check(m, &mut report) {
                v.push((m, ic, sp));
            }
        }
        // an eighth fixture: cosine over coordinates of magnitude 1e-4 (norm products in (0, f32::EPSILON])
        if let Some((ic, sp)) = fixture_check_file(Metric::Cosine, "cosine-small", false, &mut report) {
            v.push((Metric::Cosine, ic, sp));
        }
        v
    });
    report.cov("fixtures_checked", stats.len() as u64);
    report.cov("fixtures", Value::from(stats.iter().map(|(m, ic, sp)| json!({"metric": m.short(), "single_item_children": ic, "splits": sp})).collect::<Vec<_>>()));
    // (b) forward: every explored state decodes under Appendix A and agrees with the API
    let obs = Observers { format: true, structure: true, ..Default::default() };
    let mut runs: Vec<(HistCfg, Caps)> = Vec::new();
    match tier {
        Tier::Quick => {
            let b = build_menu(&[None, Some(2)], &[None, Some(1)], 1);
            for (m, d) in [(Metric::Euclidean, 2usize), (Metric::DotProduct, 3), (Metric::Cosine, 2), (Metric::BqManhattan, 65), (Metric::Manhattan, 1), (Metric::BqEuclidean, 2), (Metric::BqCosine, 3)] {
                runs.push((cfg(m, d, 5, b.clone(), vec![5, 1], obs.clone(), &format!("forward-{}-d{d}", m.short())), caps(6)));
            }
        }
        Tier::Thorough => {
            let b = build_menu(&[None, Some(1), Some(3)], &[None, Some(1), Some(2)], 2);
            for m in M7 {
                for d in [1usize, 2, 3, 65, 130] {
                    runs.push((cfg(m, d, 5, b.clone(), vec![5, 2], obs.clone(), &format!("forward-{}-d{d}", m.short())), caps(40)));
                }
            }
        }
    }
    crate::props::run_hist_runs(&mut report, "C16", &runs);
    report.cov("oracle", "(a) KeyCodec/PrefixCodec bytes = Appendix A for the 160-key lattice (+1000 seeded extras), decode(encode) = id, byte order = (index, kind, id) order for all 25 600 pairs and under LMDB iteration; (b) every state of a history exploration decodes under the independent decoder and agrees with Reader::n_trees / item_ids / dimensions / item_vector / stats, and satisfies S; (c) the golden dumps of the reference version open, show the recorded items and vectors, satisfy S, answer the recorded queries with the same neighbours and distances, report NeedBuild for the index with pending updates, and can be updated and rebuilt (S and X afterwards)");
    report.finish()
}

// ------------------------------------------------------------------------------------------

pub fn c17(tier: Tier) -> i32 {
    let mut report = Report::new("C17", tier, "model_checking");
    report.assume("LMDB/heed; roaring; the v0.4 layout as described in DESIGN.md Appendix A (kinds Item=0, Tree=1, Metadata=2; updated set as one bitmap; metric name angular or cosine)");
    let obs = Observers { upgrade: true, ..Default::default() };
    let mut runs: Vec<(HistCfg, Caps)> = Vec::new();
    match tier {
        Tier::Quick => {
            let b = build_menu(&[None, Some(2)], &[None, Some(1)], 1);
            runs.push((cfg(Metric::Cosine, 2, 5, b.clone(), vec![5, 2], obs.clone(), "cosine-d2"), caps(25)));
            runs.push((cfg(Metric::Cosine, 65, 4, b, vec![4, 1], obs.clone(), "cosine-d65"), caps(15)));
            // three builds with changing tree counts (shrink, then grow): the order of the roots in the metadata is
            // then not the sorted one, and the upgrade must keep it
            let counts = build_menu(&[Some(1), Some(3), Some(4)], &[Some(1)], 1);
            runs.push((cfg(Metric::Cosine, 2, 3, counts, vec![3, 0, 0], obs.clone(), "cosine-d2-tree-counts"), caps(15)));
        }
        Tier::Thorough => {
            let b = build_menu(&[None, Some(1), Some(3)], &[None, Some(1), Some(2)], 1);
            for d in [1usize, 2, 3, 65] {
                runs.push((cfg(Metric::Cosine, d, 5, b.clone(), vec![5, 2], obs.clone(), &format!("cosine-d{d}")), caps(300)));
            }
            let counts = build_menu(&[Some(1), Some(2), Some(3), Some(4), Some(5)], &[Some(1)], 1);
            runs.push((cfg(Metric::Cosine, 2, 4, counts, vec![4, 1, 1], obs.clone(), "cosine-d2-tree-counts"), caps(120)));
        }
    }
    crate::props::run_hist_runs(&mut report, "C17", &runs);
    report.cov("oracle", "every state of the history exploration (built or with pending updates, duplicated under a neighbouring index number and under indexes 0 and 65535) is rewritten into the v0.4 layout by an independent transformation (old metric name angular and cosine), then cosine_from_0_4_to_0_5 is run between two environments (target pre-filled with a stale key) and inside one environment: the output must equal the current-layout dump minus version records, key for key and byte for byte; it opens iff no update was pending (else NeedBuild / MissingMetadata) and passes upstream's validity walk; on built states from_0_5_to_0_6 must add exactly one version record (crate version, three u32 BE) per index with metadata and change nothing else");
    report.finish()
}
