//! Replays a violation artefact without the explorer.

pub fn run(path: &str) -> i32 {
    println!("MACHINERY-ERROR replay of {path}: not implemented yet");
    2
}
