//! Replays a violation artefact without the explorer: the recorded action list is executed
//! sequentially from the empty database through the same transition function and oracles,
//! twice (determinism protocol: both logs must be identical), and additionally "plainly":
//! one continuous sequence of API calls with a real commit after every build.

use serde_json::Value;

use crate::common::{arroy_db, Scratch};
use crate::exec::{exec, Action, Outcome};
use crate::explore::{in_single_thread_pool, Seen, System, Worker};
use crate::hist::{HistCfg, HistSystem};

pub fn run(path: &str) -> i32 {
    let text = match std::fs::read_to_string(path) {
        Ok(t) => t,
        Err(e) => {
            println!("MACHINERY-ERROR cannot read {path}: {e}");
            return 2;
        }
    };
    let v: Value = match serde_json::from_str(&text) {
        Ok(v) => v,
        Err(e) => {
            println!("MACHINERY-ERROR {path} is not JSON: {e}");
            return 2;
        }
    };
    let property = v["property"].as_str().unwrap_or("?").to_string();
    println!("replaying {path}: property={property} signature={}", v["signature"]);
    println!("recorded: {}", v["what"].as_str().unwrap_or(""));
    let engine = v["engine"].as_str().unwrap_or("");
    let logs: Vec<Vec<String>> = (0..2)
        .map(|_| match engine {
            "hist" => in_single_thread_pool(|| replay_hist(&v)),
            other => crate::props::replay_other(other, &v),
        })
        .collect();
    for l in &logs[0] {
        println!("  {l}");
    }
    if logs[0] != logs[1] {
        println!("MACHINERY-ERROR the two replays of {path} diverge (uncontrolled nondeterminism); no verdict");
        for l in &logs[1] {
            println!("  second: {l}");
        }
        return 2;
    }
    if logs[0].iter().any(|l| l.starts_with("VIOLATION-REPRODUCED")) {
        println!("VIOLATION property={property} replay={path}");
        1
    } else {
        println!("replay of {path}: no violation on the current tree");
        0
    }
}

fn replay_hist(v: &Value) -> Vec<String> {
    let mut log = Vec::new();
    let cfg = match HistCfg::from_json(&v["config"]) {
        Some(c) => c,
        None => return vec!["MACHINERY-ERROR cannot parse the hist config".into()],
    };
    let actions: Vec<Action> = v["actions"]
        .as_array()
        .map(|a| a.iter().filter_map(Action::from_json).collect())
        .unwrap_or_default();
    let sys = HistSystem { cfg: cfg.clone() };
    let seen = Seen::new();
    let mut w = Worker::new("replay");
    let mut state = sys.initial().remove(0);
    for (i, a) in actions.iter().enumerate() {
        let step = sys.step(&mut w, &state, a, &seen);
        log.push(format!("step {i}: {}", a.to_json()));
        for viol in &step.violations {
            log.push(format!("VIOLATION-REPRODUCED signature={} :: {}", viol.signature, viol.what));
        }
        match step.next {
            Some(s) => state = s,
            None => {
                if step.violations.is_empty() {
                    log.push("(state already visited in this replay — identical to an earlier one)".into());
                }
                break;
            }
        }
    }
    // plain run: continuous API calls, real commits
    let scratch = Scratch::new("plain");
    let mut types = crate::exec::IndexTypes::new();
    types.insert(cfg.index, (cfg.metric, cfg.dim));
    let mut wtxn = scratch.env.write_txn().unwrap();
    for (i, a) in actions.iter().enumerate() {
        let (o, _) = exec(scratch.db, &mut wtxn, &mut types, a);
        log.push(format!("plain {i}: {}", o.describe()));
        if !o.is_ok() {
            break;
        }
        if a.is_build() {
            wtxn.commit().unwrap();
            let rtxn = scratch.env.read_txn().unwrap();
            let ok = crate::with_metric!(cfg.metric, D => {
                match crate::common::catch(|| {
                    arroy::Reader::<D>::open(&rtxn, cfg.index, arroy_db::<D>(scratch.db))
                        .and_then(|r| r.assert_validity(&rtxn))
                }) {
                    Ok(Ok(())) => "upstream assert_validity: ok".to_string(),
                    Ok(Err(e)) => format!("upstream assert_validity: error {e}"),
                    Err(p) => format!("upstream assert_validity: panic {}", p.message),
                }
            });
            log.push(format!("plain {i}: committed; {ok}"));
            drop(rtxn);
            wtxn = scratch.env.write_txn().unwrap();
        }
    }
    let _ = Outcome::Unit;
    log
}
