//! C13 — parallel tree updates never collide, whatever the thread schedule (engine E2).
//!
//! L1: the real `ConcurrentNodeIds::next` on real threads, every atomic operation a yield
//!     point, stateful depth-first search over all interleavings (sequential consistency).
//! L2: the real build in a rayon pool with one thread per tree; the per-tree tasks yield at
//!     every `next()` call and all interleavings of those calls are enumerated.

use std::collections::BTreeMap;
use std::sync::{Arc, Condvar, Mutex};
use std::time::Duration;

use roaring::RoaringBitmap;
use serde_json::json;

use crate::common::{hash128, Kv, Metric, Report, Scratch, Tier, Violation};
use crate::exec::{exec, run_build, Action, BuildOpts, IndexTypes};
use crate::layout::{decode_index, Child, DIndex, TreeNode};
use crate::oracle;
use crate::sched::{dfs, Point, Sched, Status};

// ------------------------------------------------------------------------------------------
// L1

struct L1Outcome {
    points: Vec<Point>,
    returned: Vec<Vec<u32>>,
}

/// A team of persistent threads that run the script "call next() `calls` times" on command.
struct Team {
    sched: Sched,
    returned: Arc<Mutex<Vec<Vec<u32>>>>,
    observed: Arc<Mutex<Vec<Vec<(&'static str, u64)>>>>,
    jobs: Vec<std::sync::mpsc::Sender<Option<(Arc<arroy::verif::ConcurrentNodeIds>, usize)>>>,
    handles: Vec<std::thread::JoinHandle<()>>,
}

impl Team {
    fn new(threads: usize) -> Team {
        let sched = Sched::new(threads);
        let returned: Arc<Mutex<Vec<Vec<u32>>>> = Arc::new(Mutex::new(vec![Vec::new(); threads]));
        // per thread: (label, value returned) of the atomic operations of the call in progress —
        // everything the locals of next() can depend on
        let observed: Arc<Mutex<Vec<Vec<(&'static str, u64)>>>> = Arc::new(Mutex::new(vec![Vec::new(); threads]));
        let mut jobs = Vec::new();
        let mut handles = Vec::new();
        for t in 0..threads {
            let (tx, rx) = std::sync::mpsc::channel::<Option<(Arc<arroy::verif::ConcurrentNodeIds>, usize)>>();
            jobs.push(tx);
            let sched = sched.clone();
            let returned = returned.clone();
            let observed = observed.clone();
            handles.push(std::thread::spawn(move || {
                let s2 = sched.clone();
                // only the atomic operations are yield points here
                arroy::verif::set_hook(Some(Box::new(move |label, _| {
                    if label.starts_with("Atomic") {
                        s2.yield_point(t, label, 0)
                    }
                })));
                let o2 = observed.clone();
                arroy::verif::set_observer(Some(Box::new(move |label, value| o2.lock().unwrap()[t].push((label, value)))));
                while let Ok(Some((ids, calls))) = rx.recv() {
                    sched.yield_point(t, "start", 0);
                    for _ in 0..calls {
                        observed.lock().unwrap()[t].clear();
                        match ids.next() {
                            Ok(id) => returned.lock().unwrap()[t].push(id),
                            Err(_) => returned.lock().unwrap()[t].push(u32::MAX),
                        }
                        observed.lock().unwrap()[t].clear();
                    }
                    drop(ids);
                    sched.finish(t);
                }
            }));
        }
        Team { sched, returned, observed, jobs, handles }
    }
}

impl Drop for Team {
    fn drop(&mut self) {
        self.sched.free_run();
        for j in &self.jobs {
            let _ = j.send(None);
        }
        for h in self.handles.drain(..) {
            let _ = h.join();
        }
    }
}

fn run_l1(team: &Team, threads: usize, calls: usize, used: &RoaringBitmap, prefix: &[usize]) -> Result<L1Outcome, String> {
    let ids = Arc::new(arroy::verif::ConcurrentNodeIds::new(used.clone()));
    let sched = &team.sched;
    sched.reset_all();
    for r in team.returned.lock().unwrap().iter_mut() {
        r.clear();
    }
    for o in team.observed.lock().unwrap().iter_mut() {
        o.clear();
    }
    for j in &team.jobs {
        j.send(Some((ids.clone(), calls))).map_err(|e| e.to_string())?;
    }
    let returned = &team.returned;
    let observed = &team.observed;
    let mut points = Vec::new();
    let mut err = None;
    loop {
        let st = match sched.quiesce(threads, Duration::from_secs(20)) {
            Some(s) => s,
            None => {
                err = Some("a participant ran for 20 s without reaching a yield point (livelock)".to_string());
                break;
            }
        };
        let enabled: Vec<usize> = (0..threads).filter(|t| matches!(st[*t], Status::Blocked(..))).collect();
        if enabled.is_empty() {
            break;
        }
        let global = hash128(&[format!("{:?}", ids).as_bytes()]);
        let mut all_returned: Vec<u32> = returned.lock().unwrap().iter().flatten().copied().collect();
        all_returned.sort();
        let mut sig: Vec<u8> = Vec::new();
        sig.extend_from_slice(&global.to_le_bytes());
        for r in &all_returned {
            sig.extend_from_slice(&r.to_le_bytes());
        }
        // the threads run the same script: their blocks are sorted (symmetry reduction)
        let mut blocks: Vec<Vec<u8>> = Vec::new();
        for t in 0..threads {
            let mut b: Vec<u8> = Vec::new();
            b.extend_from_slice(&(returned.lock().unwrap()[t].len() as u32).to_le_bytes());
            match &st[t] {
                Status::Blocked(l, _) => b.extend_from_slice(l.as_bytes()),
                Status::Done => b.push(0xdd),
                _ => {}
            }
            for (l, v) in &observed.lock().unwrap()[t] {
                b.extend_from_slice(l.as_bytes());
                b.extend_from_slice(&v.to_le_bytes());
            }
            blocks.push(b);
        }
        blocks.sort();
        for b in blocks {
            sig.push(0xfe);
            sig.extend_from_slice(&b);
        }
        let i = points.len();
        let chosen = if i < prefix.len() { prefix[i] } else { 0 };
        if chosen >= enabled.len() {
            err = Some(format!("replay divergence: choice {chosen} at point {i} but only {} threads enabled", enabled.len()));
            break;
        }
        let t = enabled[chosen];
        points.push(Point { state: Some(hash128(&[&sig])), enabled: enabled.len(), chosen });
        sched.release(t);
    }
    if let Some(e) = err {
        // the team is abandoned by its owner (Drop lets the threads run free)
        return Err(e);
    }
    let returned = returned.lock().unwrap().clone();
    Ok(L1Outcome { points, returned })
}

fn l1_oracle(used: &RoaringBitmap, returned: &[Vec<u32>]) -> Result<(), String> {
    let mut seen = std::collections::BTreeSet::new();
    for (t, ids) in returned.iter().enumerate() {
        for id in ids {
            if used.contains(*id) {
                return Err(format!("thread {t} was handed id {id}, which is in use in the database (used = {:?})", used.iter().collect::<Vec<_>>()));
            }
            if !seen.insert(*id) {
                return Err(format!("id {id} was handed out twice: {returned:?}"));
            }
        }
    }
    Ok(())
}

fn level1(report: &mut Report, tier: Tier) {
    use rayon::prelude::*;
    let configs: Vec<(usize, usize)> = match tier {
        Tier::Quick => vec![(2, 1), (2, 2), (2, 3), (3, 1), (3, 2)],
        Tier::Thorough => vec![(2, 1), (2, 2), (2, 3), (3, 1), (3, 2), (4, 1), (3, 3)],
    };
    let cap: u64 = if tier == Tier::Quick { 60_000 } else { 600_000 };
    let mut total_exec = 0u64;
    let mut total_states = 0u64;
    let outcomes: Mutex<std::collections::BTreeSet<Vec<u32>>> = Mutex::new(Default::default());
    for (threads, calls) in configs {
        // the 32 used-sets are independent searches: run them side by side (the hooks are thread-local)
        // quick tier: the 3x2 search runs on 8 of the 32 used-sets (none, some, gaps, full)
        let masks: Vec<u32> = if tier == Tier::Quick && threads * calls >= 6 && threads >= 3 {
            vec![0b00000, 0b00001, 0b00010, 0b00101, 0b01010, 0b10001, 0b10100, 0b11111]
        } else {
            (0u32..32).collect()
        };
        let n_masks = masks.len();
        let results: Vec<(u32, Result<crate::sched::DfsStats, (String, Vec<usize>)>, Option<(String, Vec<usize>, Vec<Vec<u32>>)>)> = masks
            .into_par_iter()
            .map(|mask| {
                let used: RoaringBitmap = (0..5u32).filter(|b| (mask >> b) & 1 == 1).collect();
                let mut failure: Option<(String, Vec<usize>, Vec<Vec<u32>>)> = None;
                let team = Team::new(threads);
                let r = dfs(
                    |prefix| {
                        let o = run_l1(&team, threads, calls, &used, prefix)?;
                        let mut flat: Vec<u32> = o.returned.iter().flatten().copied().collect();
                        flat.sort();
                        outcomes.lock().unwrap().insert(flat);
                        if failure.is_none() {
                            if let Err(e) = l1_oracle(&used, &o.returned) {
                                failure = Some((e, o.points.iter().map(|p| p.chosen).collect(), o.returned.clone()));
                            }
                        }
                        Ok(o.points)
                    },
                    cap,
                );
                (mask, r, failure)
            })
            .collect();
        let mut cfg_exec = 0u64;
        let mut cfg_states = 0u64;
        for (mask, r, failure) in results {
            let used: Vec<u32> = (0..5u32).filter(|b| (mask >> b) & 1 == 1).collect();
            match r {
                Ok(stats) => {
                    cfg_exec += stats.executions;
                    cfg_states += stats.distinct_states;
                    if stats.capped {
                        report.cov("exhaustive", false);
                        report.cov("l1_cap", format!("execution cap {cap} reached for T={threads} K={calls} used={used:?}"));
                    }
                }
                Err((e, prefix)) => report.machinery_error(format!("L1 T={threads} K={calls}: {e} (prefix {prefix:?})")),
            }
            if let Some((e, schedule, returned)) = failure {
                report.add_violation(Violation {
                    signature: "N/id-collision".into(),
                    what: format!("{threads} threads x {calls} calls, used = {used:?}: {e}"),
                    replay: json!({"engine": "ids", "threads": threads, "calls": calls, "used": used, "schedule": schedule, "returned": returned}),
                });
            }
        }
        eprintln!("[C13] L1 T={threads} K={calls}: executions={cfg_exec} states={cfg_states} elapsed={:.1}s", report.started.elapsed().as_secs_f64());
        let runs = report.coverage.entry("runs".to_string()).or_insert_with(|| json!([]));
        runs.as_array_mut().unwrap().push(json!({"run": format!("L1 threads={threads} calls={calls} x {n_masks} used-sets"), "executions": cfg_exec, "states": cfg_states}));
        total_exec += cfg_exec;
        total_states += cfg_states;
        if !report.violations.is_empty() {
            break;
        }
    }
    report.cov_add("states", total_states);
    report.cov_add("transitions", total_exec);
    report.cov_add("traces_validated_against_impl", total_exec);
    let outcomes = outcomes.into_inner().unwrap();
    report.cov("l1_distinct_outcomes", outcomes.len() as u64);
    // actual explored cases: the id multisets handed out (each is one equivalence class of schedules)
    let shown: Vec<&Vec<u32>> = outcomes.iter().filter(|o| o.len() >= 4).take(3).collect();
    report.sample(json!({"level": "L1", "ids_handed_out_in_explored_executions (sorted, per execution)": shown}));
}

// ------------------------------------------------------------------------------------------
// L2

struct TaskState {
    /// number of tasks of the phase in progress (0 = no phase)
    total: u64,
    started: u64,
    ended: u64,
    /// per pool thread: blocked at (label, root) / running a task / idle
    thread: Vec<ThreadState>,
    token: Option<usize>,
    build_done: bool,
    free_run: bool,
}

#[derive(Clone, Debug, PartialEq)]
enum ThreadState {
    Idle,
    Blocked(&'static str, u64),
    Running,
}

type Shared = Arc<(Mutex<TaskState>, Condvar)>;

fn task_yield(sh: &Shared, me: usize, label: &'static str, root: u64, is_start: bool) {
    let (m, cv) = &**sh;
    let mut g = m.lock().unwrap();
    if is_start {
        // registered and blocked in one critical section: the controller never sees a
        // started task that is not yet blocked
        g.started += 1;
    }
    if g.free_run {
        return;
    }
    g.thread[me] = ThreadState::Blocked(label, root);
    if g.token == Some(me) {
        g.token = None;
    }
    cv.notify_all();
    while g.token != Some(me) && !g.free_run {
        g = cv.wait(g).unwrap();
    }
    g.thread[me] = ThreadState::Running;
}

/// Runs one build of `index` on `scratch` in a pool of `n_threads`, scheduled by `prefix`.
/// Returns the decision points.
fn run_l2(scratch: &Scratch, start: &Kv, dim: usize, metric: Metric, opts: &BuildOpts, n_threads: usize, prefix: &[usize]) -> Result<(Vec<Point>, Kv, Result<(), String>), String> {
    let shared: Shared = Arc::new((
        // on one thread the tasks run one after the other: nothing to schedule
        Mutex::new(TaskState { total: 0, started: 0, ended: 0, thread: vec![ThreadState::Idle; n_threads], token: None, build_done: false, free_run: n_threads == 1 }),
        Condvar::new(),
    ));
    let sh_handler = shared.clone();
    let pool = rayon::ThreadPoolBuilder::new()
        .num_threads(n_threads)
        .stack_size(64 << 20)
        .start_handler(move |me| {
            let sh = sh_handler.clone();
            let in_task = std::cell::Cell::new(None::<u64>);
            arroy::verif::set_hook(Some(Box::new(move |label, value| match label {
                "tree-tasks-begin" => {
                    let (m, cv) = &*sh;
                    let mut g = m.lock().unwrap();
                    g.total = value;
                    g.started = 0;
                    g.ended = 0;
                    cv.notify_all();
                }
                "tree-task-start" => {
                    in_task.set(Some(value));
                    task_yield(&sh, me, "tree-task-start", value, true);
                }
                "ConcurrentNodeIds::next" => {
                    if let Some(root) = in_task.get() {
                        task_yield(&sh, me, "next", root, false);
                    }
                }
                "tree-task-end" => {
                    in_task.set(None);
                    let (m, cv) = &*sh;
                    let mut g = m.lock().unwrap();
                    g.ended += 1;
                    g.thread[me] = ThreadState::Idle;
                    if g.token == Some(me) {
                        g.token = None;
                    }
                    if g.ended == g.total {
                        g.total = 0;
                    }
                    cv.notify_all();
                }
                _ => {}
            })));
        })
        .build()
        .map_err(|e| e.to_string())?;

    let env = scratch.env.clone();
    let db = scratch.db;
    let result: Mutex<Option<(Kv, Result<(), String>)>> = Mutex::new(None);
    let mut points: Vec<Point> = Vec::new();
    let mut err: Option<String> = None;
    std::thread::scope(|scope| {
        let sh_runner = shared.clone();
        let result = &result;
        let pool = &pool;
        scope.spawn(move || {
            let out = pool.install(|| {
                let mut wtxn = env.write_txn().unwrap();
                crate::common::dump(db, &wtxn);
                db.clear(&mut wtxn).unwrap();
                for (k, v) in start {
                    db.put(&mut wtxn, k, v).unwrap();
                }
                let r = crate::common::catch(|| {
                    crate::with_metric!(metric, D => run_build::<D>(db, &mut wtxn, 0, dim, opts, None, None).0)
                });
                let res = match r {
                    Ok(Ok(())) => Ok(()),
                    Ok(Err(e)) => Err(format!("build error: {e}")),
                    Err(p) => Err(format!("build panicked at {}: {}", p.location, p.message)),
                };
                let kv = crate::common::dump(db, &wtxn);
                wtxn.abort();
                (kv, res)
            });
            *result.lock().unwrap() = Some(out);
            let (m, cv) = &*sh_runner;
            m.lock().unwrap().build_done = true;
            cv.notify_all();
        });
        // controller
        let (m, cv) = &*shared;
        let mut g = m.lock().unwrap();
        let deadline = std::time::Instant::now() + Duration::from_secs(60);
        loop {
            if g.build_done {
                break;
            }
            let running = g.thread.iter().filter(|t| **t == ThreadState::Running).count();
            let blocked: Vec<(usize, u64)> = g
                .thread
                .iter()
                .enumerate()
                .filter_map(|(i, t)| if let ThreadState::Blocked(_, root) = t { Some((i, *root)) } else { None })
                .collect();
            let phase_ready = g.total > 0 && g.started == g.total && g.token.is_none() && running == 0 && !blocked.is_empty();
            if phase_ready {
                // decision point: enabled tasks in ascending root order
                let mut enabled = blocked.clone();
                enabled.sort_by_key(|(_, root)| *root);
                let i = points.len();
                let chosen = if i < prefix.len() { prefix[i] } else { 0 };
                if chosen >= enabled.len() {
                    err = Some(format!("replay divergence at point {i}: choice {chosen} of {}", enabled.len()));
                    g.free_run = true;
                    cv.notify_all();
                    break;
                }
                points.push(Point { state: None, enabled: enabled.len(), chosen });
                let (thread, _) = enabled[chosen];
                g.thread[thread] = ThreadState::Running;
                g.token = Some(thread);
                cv.notify_all();
                continue;
            }
            let now = std::time::Instant::now();
            if now >= deadline {
                err = Some(format!("no progress for 60 s (started {}/{} tasks, threads {:?})", g.started, g.total, g.thread));
                g.free_run = true;
                cv.notify_all();
                break;
            }
            let (ng, _) = cv.wait_timeout(g, Duration::from_millis(200)).unwrap();
            g = ng;
        }
        drop(g);
    });
    drop(pool);
    if let Some(e) = err {
        return Err(e);
    }
    let (kv, res) = result.into_inner().unwrap().ok_or("the build thread left no result")?;
    Ok((points, kv, res))
}

thread_local! {
    static LAST_SCHEDULE: std::cell::RefCell<Vec<usize>> = const { std::cell::RefCell::new(Vec::new()) };
}

/// Canonical form of a forest, independent of node ids.
fn canonical_forest(ix: &DIndex) -> String {
    fn walk(ix: &DIndex, c: Child, out: &mut String) {
        match c {
            Child::Item(i) => out.push_str(&format!("I{i}")),
            Child::Tree(t) => match ix.trees.get(&t) {
                Some(TreeNode::Bucket(b)) => out.push_str(&format!("B{:?}", b.iter().collect::<Vec<_>>())),
                Some(TreeNode::Split { left, right, normal }) => {
                    out.push_str(&format!("S[{:02x?}](", normal));
                    walk(ix, *left, out);
                    out.push(',');
                    walk(ix, *right, out);
                    out.push(')');
                }
                None => out.push_str("MISSING"),
            },
        }
    }
    let mut trees: Vec<String> = Vec::new();
    if let Some(m) = &ix.meta {
        for r in &m.roots {
            let mut s = String::new();
            walk(ix, Child::Tree(*r), &mut s);
            trees.push(s);
        }
    }
    trees.sort();
    trees.join(" | ")
}

fn level2(report: &mut Report, tier: Tier) {
    let metric = Metric::Euclidean;
    let dim = 2usize;
    let scenarios: Vec<(usize, usize, usize)> = match tier {
        // (trees, base items, added items)
        Tier::Quick => vec![(2, 4, 1), (2, 5, 2), (3, 4, 1)],
        Tier::Thorough => vec![(2, 4, 1), (2, 5, 2), (2, 6, 3), (3, 4, 1), (3, 5, 2), (3, 6, 2), (2, 4, 3)],
    };
    let menu = crate::hist::universe(dim, 10);
    let mut total_exec = 0u64;
    let mut total_points = 0u64;
    for (trees, base, added) in scenarios {
        // base index, built sequentially
        let scratch = Scratch::new("c13");
        let mut types = IndexTypes::new();
        types.insert(0, (metric, dim));
        let opts = BuildOpts { n_trees: Some(trees), split_after: Some(1), memory: None, seed: crate::common::verif_seed(), cancel_at: None };
        let start: Result<Kv, String> = crate::explore::in_single_thread_pool(|| {
            let mut wtxn = scratch.env.write_txn().unwrap();
            for i in 0..base {
                let (o, _) = exec(scratch.db, &mut wtxn, &mut types.clone(), &Action::Add { index: 0, id: i as u32, vec: menu[i][0].clone() });
                if !o.is_ok() {
                    return Err(format!("add_item: {}", o.describe()));
                }
            }
            let (o, _) = exec(scratch.db, &mut wtxn, &mut types.clone(), &Action::Build { index: 0, opts: opts.clone() });
            if !o.is_ok() {
                return Err(format!("the base build on one thread: {}", o.describe()));
            }
            for i in base..base + added {
                let (o, _) = exec(scratch.db, &mut wtxn, &mut types.clone(), &Action::Add { index: 0, id: i as u32, vec: menu[i][1].clone() });
                if !o.is_ok() {
                    return Err(format!("add_item: {}", o.describe()));
                }
            }
            let kv = scratch.dump(&wtxn);
            wtxn.abort();
            Ok(kv)
        });
        let start = match start {
            Ok(kv) => kv,
            Err(e) => {
                report.add_violation(Violation::new("N/build-failed:base", format!("{trees} trees, {base} items: {e}")));
                continue;
            }
        };
        let expect: std::collections::BTreeSet<u32> = (0..(base + added) as u32).collect();
        // reference: the same build on one thread
        let reference = match run_l2(&scratch, &start, dim, metric, &opts, 1, &[]) {
            Ok((_, kv, Ok(()))) => decode_index(&kv, 0, metric, dim).map(|ix| canonical_forest(&ix)).unwrap_or_default(),
            Ok((_, _, Err(e))) => {
                report.add_violation(Violation::new("N/build-failed:one-thread", format!("{trees} trees, {base}+{added} items, one thread: {e}")));
                continue;
            }
            Err(e) => {
                report.machinery_error(format!("L2 reference build: {e}"));
                continue;
            }
        };
        let mut failure: Option<Violation> = None;
        let mut forests: BTreeMap<String, u64> = BTreeMap::new();
        let mut differs_from_reference = 0u64;
        let r = dfs(
            |prefix| {
                let (points, kv, res) = run_l2(&scratch, &start, dim, metric, &opts, trees, prefix)?;
                LAST_SCHEDULE.with(|l| *l.borrow_mut() = points.iter().map(|p| p.chosen).collect());
                if failure.is_none() {
                    let schedule: Vec<usize> = points.iter().map(|p| p.chosen).collect();
                    let verdict: Result<(), (String, String)> = (|| {
                        res.clone().map_err(|e| ("N/build-failed".to_string(), e))?;
                        let ix = decode_index(&kv, 0, metric, dim).map_err(|e| ("F/undecodable".to_string(), e))?;
                        oracle::structure(&ix, &expect, metric, dim)?;
                        // recorded, not judged: over-full buckets are re-split in node-id order with the
                        // shared RNG, so the random planes may legitimately depend on the schedule
                        let c = canonical_forest(&ix);
                        if c != reference {
                            differs_from_reference += 1;
                        }
                        *forests.entry(c).or_insert(0) += 1;
                        Ok(())
                    })();
                    if let Err((c, m)) = verdict {
                        failure = Some(Violation {
                            signature: c,
                            what: format!("{trees} trees, {base}+{added} items, schedule {schedule:?}: {m}"),
                            replay: json!({"engine": "build-schedule", "trees": trees, "base": base, "added": added, "schedule": schedule}),
                        });
                    }
                }
                Ok(points)
            },
            if tier == Tier::Quick { 400 } else { 20_000 },
        );
        match r {
            Ok(stats) => {
                eprintln!("[C13] L2 trees={trees} base={base} added={added}: executions={} decision_points={} capped={}", stats.executions, stats.decision_points, stats.capped);
                total_exec += stats.executions;
                total_points += stats.decision_points;
                let runs = report.coverage.entry("runs".to_string()).or_insert_with(|| json!([]));
                runs.as_array_mut().unwrap().push(json!({"run": format!("L2 trees={trees} base={base} added={added}"), "interleavings": stats.executions, "max_next_calls": stats.max_depth, "capped": stats.capped, "distinct_forests_up_to_node_ids": forests.len(), "schedules_whose_forest_differs_from_one_thread": differs_from_reference}));
                if stats.capped {
                    report.cov("exhaustive", false);
                }
            }
            Err((e, prefix)) => report.machinery_error(format!("L2 trees={trees}: {e} (prefix {prefix:?})")),
        }
        if let Some(v) = failure {
            report.add_violation(v);
        }
    }
    report.cov_add("states", total_points);
    report.cov_add("transitions", total_exec);
    report.cov_add("traces_validated_against_impl", total_exec);
    report.cov("l2_interleavings", total_exec);
    report.sample(json!({"level": "L2", "scenario": "2-3 trees built with split_after=1 on one thread, 1-3 items added, rebuild in a pool with one thread per tree", "schedule": LAST_SCHEDULE.with(|l| l.borrow().clone()), "meaning": "index of the task (ascending root id among the blocked ones) released at each next() call / task boundary"}));
}

/// Supplementary, sampled (not part of the verdict's exhaustive claim): uncontrolled builds in
/// pools of 1..16 threads must satisfy S.
fn uncontrolled(report: &mut Report, tier: Tier) {
    let metric = Metric::Euclidean;
    let dim = 3usize;
    // every pool size 1..=16 x every tree count of the menu: how the per-tree tasks are dealt to the
    // threads depends on both numbers (the schedule inside each run stays uncontrolled)
    let tree_counts: Vec<usize> = if tier == Tier::Quick { vec![1, 2, 3, 5, 7, 8, 10, 13, 16, 20] } else { (1..=20).collect() };
    let mut runs = 0u64;
    for threads in 1usize..=16 {
        for (round, n_trees) in tree_counts.iter().copied().enumerate() {
            let pool = rayon::ThreadPoolBuilder::new().num_threads(threads).build().unwrap();
            let scratch = Scratch::new("c13u");
            let verdict: Result<(), (String, String)> = pool.install(|| {
                let mut types = IndexTypes::new();
                types.insert(0, (metric, dim));
                let mut wtxn = scratch.env.write_txn().unwrap();
                let mut expect = std::collections::BTreeSet::new();
                let n0 = 60 + round * 7;
                let vecf = |i: usize| -> Vec<u32> { (0..dim).map(|j| ((((i * 7 + j * 13 + round) % 23) as f32) - 11.0).to_bits()).collect() };
                for i in 0..n0 {
                    exec(scratch.db, &mut wtxn, &mut types, &Action::Add { index: 0, id: i as u32, vec: vecf(i) });
                    expect.insert(i as u32);
                }
                let opts = BuildOpts { n_trees: Some(n_trees), split_after: Some(2), memory: None, seed: round as u64, cancel_at: None };
                // every second tree count: the first build has two more trees, so that the incremental build
                // also removes trees in the round in which it asks for new node ids
                let first = BuildOpts { n_trees: Some(n_trees + if n_trees % 2 == 0 { 2 } else { 0 }), ..opts.clone() };
                let (o, _) = exec(scratch.db, &mut wtxn, &mut types, &Action::Build { index: 0, opts: first });
                if !o.is_ok() {
                    return Err(("N/build-failed".into(), o.describe()));
                }
                for i in n0..n0 + 25 {
                    exec(scratch.db, &mut wtxn, &mut types, &Action::Add { index: 0, id: i as u32, vec: vecf(i) });
                    expect.insert(i as u32);
                }
                for i in (0..n0).step_by(5) {
                    exec(scratch.db, &mut wtxn, &mut types, &Action::Del { index: 0, id: i as u32 });
                    expect.remove(&(i as u32));
                }
                let (o, _) = exec(scratch.db, &mut wtxn, &mut types, &Action::Build { index: 0, opts });
                if !o.is_ok() {
                    return Err(("N/build-failed".into(), o.describe()));
                }
                let kv = scratch.dump(&wtxn);
                let ix = decode_index(&kv, 0, metric, dim).map_err(|e| ("F/undecodable".to_string(), e))?;
                oracle::structure(&ix, &expect, metric, dim)?;
                Ok(())
            });
            runs += 1;
            if let Err((c, m)) = verdict {
                report.add_violation(Violation {
                    signature: format!("{c}:uncontrolled"),
                    what: format!("uncontrolled build of {n_trees} trees in a pool of {threads} threads: {m}"),
                    replay: json!({"engine": "uncontrolled", "threads": threads, "n_trees": n_trees}),
                });
                return;
            }
        }
    }
    report.cov("pool_size_x_tree_count_builds", runs);
}

/// Supplementary, sampled: the real `ConcurrentNodeIds::next` hammered by free-running threads
/// released together from a barrier. The exhaustive L1 search yields at the atomic operations
/// the generator uses *today*; a generator rewritten around another primitive (a lock) has no
/// yield point inside `next()` and only real preemption can separate its steps. A duplicate or
/// in-use id is a violation whatever produced it, so this run cannot raise a false alarm.
fn hammer(report: &mut Report, tier: Tier) {
    let rounds = if tier == Tier::Quick { 60 } else { 2000 };
    let mut calls_total = 0u64;
    let used_sets: Vec<RoaringBitmap> = vec![
        RoaringBitmap::new(),
        (0..64u32).step_by(2).collect(),
        (0..200u32).filter(|i| i % 7 != 3).collect(),
        [0u32, 5, 6, 900].into_iter().collect(),
    ];
    for used in &used_sets {
        for threads in [2usize, 4, 16] {
            for round in 0..rounds {
                let calls = 1 + (round % 5) * 8;
                let ids = Arc::new(arroy::verif::ConcurrentNodeIds::new(used.clone()));
                let barrier = Arc::new(std::sync::Barrier::new(threads));
                let handles: Vec<_> = (0..threads)
                    .map(|_| {
                        let ids = ids.clone();
                        let barrier = barrier.clone();
                        std::thread::spawn(move || {
                            barrier.wait();
                            (0..calls).map(|_| ids.next().map_err(|e| e.to_string())).collect::<Result<Vec<u32>, String>>()
                        })
                    })
                    .collect();
                let mut returned = Vec::new();
                for h in handles {
                    match h.join() {
                        Ok(Ok(v)) => returned.push(v),
                        Ok(Err(e)) => {
                            report.add_violation(Violation::new("N/next-failed:hammer", format!("next() failed: {e}")));
                            return;
                        }
                        Err(_) => {
                            report.add_violation(Violation::new("N/next-panicked:hammer", "a thread calling next() panicked".to_string()));
                            return;
                        }
                    }
                }
                calls_total += (threads * calls) as u64;
                if let Err(m) = l1_oracle(used, &returned) {
                    report.add_violation(Violation {
                        signature: "N/id-collision:free-running".into(),
                        what: format!("{threads} free-running threads x {calls} calls, {} ids in use: {}", used.len(), m.chars().take(300).collect::<String>()),
                        replay: json!({"engine": "hammer", "threads": threads, "calls": calls, "used": used.iter().collect::<Vec<_>>()}),
                    });
                    return;
                }
            }
        }
    }
    report.cov("supplementary_free_running_next_calls_sampled", calls_total);
}

/// L3 (fault enumeration inside the check, thread count irrelevant): a *first* build is
/// cancelled at poll n — for every n — and the transaction is committed all the same, which
/// leaves tree nodes without metadata; the index is then rebuilt. Those nodes are in use in
/// the database: the rebuild must not be handed their ids, i.e. every node left behind is
/// byte-identical afterwards (nothing refers to them, so nothing else may rewrite them).
fn level3(report: &mut Report, tier: Tier) {
    use crate::layout::{parse_key, KIND_TREE};
    let metric = Metric::Euclidean;
    let dim = 2usize;
    let configs: Vec<(usize, usize, usize)> = if tier == Tier::Quick { vec![(12, 2, 1), (40, 3, 2)] } else { vec![(12, 2, 1), (40, 3, 2), (40, 1, 1), (150, 4, 2), (400, 2, 3)] };
    let mut positions = 0u64;
    let mut with_leftovers = 0u64;
    let mut found: Option<Violation> = None;
    crate::explore::in_single_thread_pool(|| {
        'all: for (n_items, n_trees, cap) in &configs {
            let mut n = 0u64;
            loop {
                let s = Scratch::new("c13c");
                let mut types = IndexTypes::new();
                types.insert(0, (metric, dim));
                let mut wtxn = s.env.write_txn().unwrap();
                for i in 0..*n_items {
                    let v: Vec<u32> = vec![(((i * 7) % 23) as f32 - 11.0).to_bits(), (((i * 5) % 17) as f32 - 8.0).to_bits()];
                    exec(s.db, &mut wtxn, &mut types, &Action::Add { index: 0, id: i as u32, vec: v });
                }
                let opts = BuildOpts { n_trees: Some(*n_trees), split_after: Some(*cap), memory: None, seed: 5, cancel_at: Some(n) };
                let (o, _) = exec(s.db, &mut wtxn, &mut types, &Action::Build { index: 0, opts: opts.clone() });
                if o.is_ok() {
                    break;
                }
                wtxn.commit().unwrap();
                positions += 1;
                let mut wtxn = s.env.write_txn().unwrap();
                let before: Kv = s.dump(&wtxn).into_iter().filter(|(k, _)| parse_key(k).map_or(false, |p| p.kind == KIND_TREE)).collect();
                if !before.is_empty() {
                    with_leftovers += 1;
                }
                let (o, _) = exec(s.db, &mut wtxn, &mut types, &Action::Build { index: 0, opts: BuildOpts { cancel_at: None, seed: 6, ..opts.clone() } });
                let what = format!("{n_items} items, first build ({n_trees} trees, capacity {cap}) cancelled from poll {n} on and committed, then rebuilt");
                if !o.is_ok() {
                    found = Some(Violation::new("N/rebuild-failed", format!("{what}: the rebuild returned {}", o.describe())));
                    break 'all;
                }
                let after: BTreeMap<Vec<u8>, Vec<u8>> = s.dump(&wtxn).into_iter().collect();
                let overwritten: Vec<u32> = before.iter().filter(|(k, v)| after.get(k) != Some(v)).map(|(k, _)| parse_key(k).unwrap().id).collect();
                if !overwritten.is_empty() {
                    found = Some(Violation {
                        signature: "N/id-in-use-handed-out".into(),
                        what: format!("{what}: tree nodes {:?} were in use in the database (left by the cancelled build, referenced by nothing) and were overwritten or removed: their ids were handed out again", overwritten.iter().take(12).collect::<Vec<_>>()),
                        replay: json!({"engine": "c13-l3", "items": n_items, "n_trees": n_trees, "split_after": cap, "cancel_at": n}),
                    });
                    break 'all;
                }
                n += 1;
            }
        }
    });
    if let Some(v) = found {
        report.add_violation(v);
    }
    report.cov("l3_cancel_positions", positions);
    report.cov("l3_positions_leaving_tree_nodes", with_leftovers);
}

pub fn run(tier: Tier) -> i32 {
    let mut report = Report::new("C13", tier, "model_checking");
    report.assume("interleavings are explored under sequential consistency; every write of the generator is an atomic read-modify-write or a one-way flag store, so Relaxed orderings add no behaviour relevant to uniqueness (DESIGN.md C13)");
    report.assume("L2 yields at next() entry and at task boundaries only; per-tree work shares nothing else that is mutable");
    report.cov("exhaustive", true);
    level1(&mut report, tier);
    level2(&mut report, tier);
    level3(&mut report, tier);
    uncontrolled(&mut report, tier);
    hammer(&mut report, tier);
    report.cov("oracle", "L3: for every cancel position of a first build that is committed all the same, the rebuild leaves every tree node the cancelled build left behind byte-identical (ids in use in the database are not handed out); supplementary, sampled: free-running threads hammering next() from a barrier (distinct, not in use) and uncontrolled builds in pools of 1..16 threads; L1: all ids returned by concurrent next() calls are pairwise distinct and none is in the used set, for every interleaving of the atomic steps (stateful DFS: a revisited (generator state, per-thread progress, ids handed out) is not re-expanded); L2: for every interleaving of the next() calls of the per-tree tasks of a real incremental build the build succeeds and the structure oracle S holds (how many distinct forests, up to node ids, the schedules produce is recorded, not judged)");
    report.finish()
}
