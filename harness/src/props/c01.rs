//! C01 — every tree of a built index covers exactly the live items, each once.

use std::time::Duration;


use crate::common::{verif_seed, Metric, Report, Tier, M7};
use crate::exec::BuildOpts;
use crate::explore::Caps;
use crate::hist::{default_ids, universe, HistCfg, HistSystem, Observers};

/// The build alphabet `n_trees x split_after x seeds`.
pub fn build_menu(
    n_trees: &[Option<usize>],
    split_after: &[Option<usize>],
    seeds: u64,
) -> Vec<BuildOpts> {
    let s0 = verif_seed();
    let mut out = Vec::new();
    for seed in 0..seeds {
        for t in n_trees {
            for s in split_after {
                out.push(BuildOpts {
                    n_trees: *t,
                    split_after: *s,
                    memory: None,
                    seed: s0.wrapping_add(seed),
                    cancel_at: None,
                });
            }
        }
    }
    out
}

pub fn cfg(
    metric: Metric,
    dim: usize,
    n_ids: usize,
    builds: Vec<BuildOpts>,
    ops_per_round: Vec<usize>,
    obs: Observers,
    label: &str,
) -> HistCfg {
    HistCfg {
        metric,
        dim,
        index: 0,
        ids: default_ids(n_ids),
        menu: if metric.is_bq() && dim >= 33 { crate::hist::universe_signs(dim, n_ids) } else { universe(dim, n_ids) },
        builds,
        ops_per_round,
        allow_clear: true,
        del_absent: true,
        obs,
        label: label.to_string(),
    }
}

pub fn runs(tier: Tier) -> Vec<(HistCfg, Caps)> {
    let obs = Observers { structure: true, upstream_validity: true, ..Default::default() };
    let mut runs: Vec<(HistCfg, Caps)> = Vec::new();
    match tier {
        Tier::Quick => {
            let builds = build_menu(&[None, Some(1), Some(2)], &[None, Some(1)], 1);
            for m in quick_metrics() {
                runs.push((
                    cfg(m, 2, 5, builds.clone(), vec![5, 2], obs.clone(), &format!("{}-d2", m.short())),
                    Caps { max_transitions: 600_000, max_wall: Duration::from_secs(25), max_signatures: 12 },
                ));
            }
            // three operations in the second round on a small id set: clear followed by a refill
            // that is large enough for the general build path (seeded change C01-f)
            let refill = build_menu(&[Some(1), Some(2)], &[Some(1)], 1);
            runs.push((
                cfg(Metric::Euclidean, 2, 3, refill, vec![3, 3], obs.clone(), "euclidean-d2-refill"),
                Caps { max_transitions: 600_000, max_wall: Duration::from_secs(15), max_signatures: 12 },
            ));
            // below 33 dimensions every quantised split degenerates into a random one: the
            // quantised split construction itself is exercised at 64 dimensions
            let b64 = build_menu(&[None, Some(2)], &[Some(1), Some(2)], 1);
            for m in [Metric::BqCosine, Metric::BqManhattan] {
                runs.push((
                    cfg(m, 64, 5, b64.clone(), vec![5, 1], obs.clone(), &format!("{}-d64", m.short())),
                    Caps { max_transitions: 600_000, max_wall: Duration::from_secs(15), max_signatures: 12 },
                ));
            }
        }
        Tier::Thorough => {
            let full = build_menu(&[None, Some(1), Some(2), Some(3)], &[None, Some(1), Some(2), Some(3)], 2);
            let small = build_menu(&[None, Some(1), Some(2)], &[None, Some(1)], 1);
            for m in M7 {
                for d in [1usize, 2, 3] {
                    runs.push((
                        cfg(m, d, 6, full.clone(), vec![6, 2], obs.clone(), &format!("{}-d{d}-R2", m.short())),
                        Caps { max_transitions: 40_000_000, max_wall: Duration::from_secs(60), max_signatures: 12 },
                    ));
                }
                let refill = build_menu(&[Some(1), Some(2)], &[Some(1), Some(2)], 1);
                runs.push((
                    cfg(m, 2, 4, refill, vec![4, 3], obs.clone(), &format!("{}-d2-refill", m.short())),
                    Caps { max_transitions: 40_000_000, max_wall: Duration::from_secs(60), max_signatures: 12 },
                ));
                runs.push((
                    cfg(m, 2, 5, small.clone(), vec![5, 1, 1], obs.clone(), &format!("{}-d2-R3", m.short())),
                    Caps { max_transitions: 40_000_000, max_wall: Duration::from_secs(60), max_signatures: 12 },
                ));
                for d in [17usize, 33, 65, 130] {
                    let b = build_menu(&[None, Some(2)], &[Some(1), Some(2)], 1);
                    runs.push((
                        cfg(m, d, 5, b, vec![5, 1], obs.clone(), &format!("{}-d{d}-wide", m.short())),
                        Caps { max_transitions: 5_000_000, max_wall: Duration::from_secs(20), max_signatures: 12 },
                    ));
                }
            }
        }
    }
    runs
}

pub fn run(tier: Tier) -> i32 {
    let mut report = Report::new("C01", tier, "model_checking");
    report.assume("LMDB/heed get/put/delete/cursor semantics; roaring's portable serialisation; rayon");
    report.assume("builds run in a private 1-thread rayon pool (schedules are C13's subject)");
    crate::props::run_hist_runs(&mut report, "C01", &runs(tier));
    // several indexes in one database
    let two: Vec<(crate::txnsys::TxnCfg, Caps)> = match tier {
        Tier::Quick => vec![(crate::props::txn_props::c01_two_index_cfg(Metric::Manhattan, 6), Caps { max_transitions: 5_000_000, max_wall: Duration::from_secs(15), max_signatures: 12 })],
        Tier::Thorough => M7
            .iter()
            .map(|m| (crate::props::txn_props::c01_two_index_cfg(*m, 7), Caps { max_transitions: 50_000_000, max_wall: Duration::from_secs(60), max_signatures: 12 }))
            .collect(),
    };
    crate::props::txn_props::run_txn(&mut report, "C01", two);
    // any available_memory: bulk scenarios around the 200-item batch floor (C14 explores this dimension in depth)
    crate::props::bulk_props::run_into(&mut report, "C01", crate::props::bulk_props::c01_memory_scenarios(tier), if tier == Tier::Quick { 20 } else { 300 }, true);
    report.cov(
        "oracle",
        "S(index) on the decoded raw dump after every build; forest keys untouched by item operations; upstream assert_validity cross-check",
    );
    report.finish()
}

fn quick_metrics() -> Vec<Metric> {
    match std::env::var("VERIF_ONLY_METRIC").ok().and_then(|s| Metric::from_short(&s)) {
        Some(m) => vec![m],
        None => vec![Metric::Euclidean, Metric::DotProduct, Metric::BqEuclidean],
    }
}
