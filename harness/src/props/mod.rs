//! One module per property: bounds, alphabets and the evidence each check reports.

use crate::common::{Report, Tier};
use crate::explore::{explore, record, Caps};
use crate::hist::{HistCfg, HistSystem};

pub mod bulk_props;
pub mod c01;
pub mod c08;
pub mod c09;
pub mod c10;
pub mod c13;
pub mod hist_props;
pub mod kernel_props;
pub mod format_props;
pub mod replay;
pub mod txn_props;

pub fn run(id: &str, tier: Tier) -> i32 {
    match id {
        "C01" => c01::run(tier),
        "C02" => hist_props::c02(tier),
        "C03" => hist_props::c03(tier),
        "C04" => hist_props::c04(tier),
        "C15" => hist_props::c15(tier),
        "C05" => txn_props::c05(tier),
        "C06" => txn_props::c06(tier),
        "C07" => txn_props::c07(tier),
        "C19" => txn_props::c19(tier),
        "C18" => txn_props::c18(tier),
        "C11" => kernel_props::c11(tier),
        "C12" => kernel_props::c12(tier),
        "C08" => c08::run(tier),
        "C09" => c09::run(tier),
        "C10" => c10::run(tier),
        "C13" => c13::run(tier),
        "C14" => bulk_props::c14(tier),
        "C20" => bulk_props::c20(tier),
        "C16" => format_props::c16(tier),
        "C17" => format_props::c17(tier),
        other => {
            println!("MACHINERY-ERROR unknown property {other}");
            2
        }
    }
}

/// Runs every exploration of a history-based property and records it.
pub fn run_hist_runs(report: &mut Report, property: &str, runs: &[(HistCfg, Caps)]) {
    let mut descr = Vec::new();
    for (cfg, caps) in runs.iter() {
        descr.push(cfg.to_json());
        let o = explore(&HistSystem { cfg: cfg.clone() }, caps);
        eprintln!(
            "[{property}] {}: states={} transitions={} layers={:?} cap={:?} violations={}",
            cfg.label,
            o.states,
            o.transitions,
            o.layers,
            o.cap_hit,
            o.violations.len()
        );
        record(report, &cfg.label, &o);
    }
    let prev = report.coverage.remove("bounds");
    let mut all = match prev {
        Some(serde_json::Value::Array(a)) => a,
        _ => Vec::new(),
    };
    all.extend(descr);
    report.cov("bounds", serde_json::Value::from(all));
}

/// Replay of artefacts produced by engines other than the history explorer.
pub fn replay_other(engine: &str, _v: &serde_json::Value) -> Vec<String> {
    vec![format!("MACHINERY-ERROR no replayer for engine {engine:?}")]
}
