//! One module per property: bounds, alphabets and the evidence each check reports.

use crate::common::{Report, Tier};
use crate::explore::{explore, record, Caps};
use crate::hist::{HistCfg, HistSystem};

pub mod c01;
pub mod replay;

pub fn run(id: &str, tier: Tier) -> i32 {
    match id {
        "C01" => c01::run(tier),
        other => {
            println!("MACHINERY-ERROR unknown property {other}");
            2
        }
    }
}

/// Runs every exploration of a history-based property and records it.
pub fn run_hist_runs(report: &mut Report, property: &str, runs: &[(HistCfg, Caps)]) {
    let mut descr = Vec::new();
    for (cfg, caps) in runs.iter() {
        descr.push(cfg.to_json());
        let o = explore(&HistSystem { cfg: cfg.clone() }, caps);
        eprintln!(
            "[{property}] {}: states={} transitions={} layers={:?} cap={:?} violations={}",
            cfg.label,
            o.states,
            o.transitions,
            o.layers,
            o.cap_hit,
            o.violations.len()
        );
        record(report, &cfg.label, &o);
    }
    report.cov("bounds", serde_json::Value::from(descr));
}
