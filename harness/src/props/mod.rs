//! One module per property: bounds, alphabets and the evidence each check reports.

use crate::common::{Report, Tier};
use crate::explore::{explore, record, Caps};
use crate::hist::{HistCfg, HistSystem};

pub mod bulk_props;
pub mod c01;
pub mod c08;
pub mod c09;
pub mod c10;
pub mod c13;
pub mod hist_props;
pub mod kernel_props;
pub mod format_props;
pub mod replay;
pub mod txn_props;

pub fn run(id: &str, tier: Tier) -> i32 {
    match id {
        "C01" => c01::run(tier),
        "C02" => hist_props::c02(tier),
        "C03" => hist_props::c03(tier),
        "C04" => hist_props::c04(tier),
        "C15" => hist_props::c15(tier),
        "C05" => txn_props::c05(tier),
        "C06" => txn_props::c06(tier),
        "C07" => txn_props::c07(tier),
        "C19" => txn_props::c19(tier),
        "C18" => txn_props::c18(tier),
        "C11" => kernel_props::c11(tier),
        "C12" => kernel_props::c12(tier),
        "C08" => c08::run(tier),
        "C09" => c09::run(tier),
        "C10" => c10::run(tier),
        "C13" => c13::run(tier),
        "C14" => bulk_props::c14(tier),
        "C20" => bulk_props::c20(tier),
        "C16" => format_props::c16(tier),
        "C17" => format_props::c17(tier),
        other => {
            println!("MACHINERY-ERROR unknown property {other}");
            2
        }
    }
}

/// Runs every exploration of a history-based property and records it.
pub fn run_hist_runs(report: &mut Report, property: &str, runs: &[(HistCfg, Caps)]) {
    let mut descr = Vec::new();
    for (cfg, caps) in runs.iter() {
        descr.push(cfg.to_json());
        let o = explore(&HistSystem { cfg: cfg.clone() }, caps);
        eprintln!(
            "[{property}] {}: states={} transitions={} layers={:?} cap={:?} violations={}",
            cfg.label,
            o.states,
            o.transitions,
            o.layers,
            o.cap_hit,
            o.violations.len()
        );
        record(report, &cfg.label, &o);
    }
    let prev = report.coverage.remove("bounds");
    let mut all = match prev {
        Some(serde_json::Value::Array(a)) => a,
        _ => Vec::new(),
    };
    all.extend(descr);
    report.cov("bounds", serde_json::Value::from(all));
}

/// Replay of artefacts produced by engines other than the history explorer.
pub fn replay_other(engine: &str, v: &serde_json::Value) -> Vec<String> {
    match engine {
        "txn" => crate::explore::in_single_thread_pool(|| replay_txn(v)),
        _ => replay_by_reenumeration(v),
    }
}

/// The transactional system: the recorded history is executed step by step through the same
/// transition function (which itself replays the history with real transactions).
fn replay_txn(v: &serde_json::Value) -> Vec<String> {
    use crate::explore::{Seen, System, Worker};
    use crate::txnsys::{TState, TxnCfg, TxnSystem};
    let mut log = Vec::new();
    let cfg = match TxnCfg::from_json(&v["config"]) {
        Some(c) => c,
        None => return vec!["MACHINERY-ERROR cannot parse the txn config".into()],
    };
    let actions: Vec<crate::exec::Action> = v["actions"].as_array().map(|a| a.iter().filter_map(crate::exec::Action::from_json).collect()).unwrap_or_default();
    let n_prefix = cfg.prefix.len();
    let sys = TxnSystem { cfg };
    let seen = Seen::new();
    let mut w = Worker::new("replay");
    let mut state: TState = sys.initial().remove(0);
    // the recorded trace contains the actions after the prefix
    let _ = n_prefix;
    for (i, a) in actions.iter().enumerate() {
        let step = sys.step(&mut w, &state, a, &seen);
        log.push(format!("step {i}: {}", a.to_json()));
        for viol in &step.violations {
            log.push(format!("VIOLATION-REPRODUCED signature={} :: {}", viol.signature, viol.what));
        }
        match step.next {
            Some(s) => state = s,
            None => break,
        }
    }
    log
}

/// Engines whose cases are enumerated deterministically (shapes, kill points, fault positions,
/// schedules, fixtures): the artefact names the failing case, and the replay re-runs the
/// property's enumeration in a child process (evidence and artefacts redirected to a scratch
/// directory) and reports whether the recorded signature is reported again.
fn replay_by_reenumeration(v: &serde_json::Value) -> Vec<String> {
    let property = v["property"].as_str().unwrap_or("").to_string();
    let signature = v["signature"].as_str().unwrap_or("").to_string();
    let scratch = crate::common::fresh_scratch_dir("replay");
    let exe = match std::env::current_exe() {
        Ok(e) => e,
        Err(e) => return vec![format!("MACHINERY-ERROR {e}")],
    };
    let out = std::process::Command::new(exe)
        .arg(&property)
        .env("VERIF_EVIDENCE_DIR", scratch.join("evidence"))
        .env("VERIF_REPLAYS_DIR", scratch.join("replays"))
        .output();
    let _ = std::fs::remove_dir_all(&scratch);
    let out = match out {
        Ok(o) => o,
        Err(e) => return vec![format!("MACHINERY-ERROR cannot re-run {property}: {e}")],
    };
    let stdout = String::from_utf8_lossy(&out.stdout);
    let mut log = vec![format!("re-enumerating {property} (quick tier) for the recorded case {}", v.get("kernel").or(v.get("scenario")).or(v.get("schedule")).or(v.get("fault_config")).map(|x| x.to_string()).unwrap_or_default().chars().take(200).collect::<String>())];
    let mut found = false;
    for l in stdout.lines() {
        if let Some(rest) = l.strip_prefix("DETAIL ") {
            let same = rest.contains(&format!("signature={signature} "));
            log.push(format!("{} {}", if same { "VIOLATION-REPRODUCED" } else { "other violation:" }, rest.chars().take(300).collect::<String>()));
            found |= same;
        }
    }
    if !found {
        log.push(format!("the signature {signature} is not reported on the current tree"));
    }
    log
}
