//! C10 — a build that fails or is cancelled reports it and can be rolled back (engine E4).
//!
//! Fault positions are enumerated exhaustively:
//!  (a) the cancel callback starts answering true at its n-th call, for every n from 0 to
//!      the number of polls of the fault-free build, on start states with pending insertions
//!      and deletions on an already built index (and never-built ones);
//!  (b) the LMDB map is k pages, for every k from the smallest LMDB accepts up to the first
//!      size at which the whole scenario succeeds, plus a margin;
//!  (c) the temp directory is unusable (missing, a regular file, /proc/self), also when it was
//!      configured before `prepare_changing_distance` re-typed the writer;
//!  (d) for every cancel position again: the retry goes through the *same* `ArroyBuilder`.

use std::collections::BTreeMap;
use std::path::{Path, PathBuf};
use std::time::Duration;

use serde_json::{json, Value};

use crate::common::{dump, fresh_scratch_dir, Dec, Enc, Kv, Metric, Report, Scratch, Tier, Violation};
use crate::exec::{exec, run_build, Action, BuildOpts, ErrKind, IndexTypes};
use crate::explore::{explore, record, Caps, Seen, Step, System, Worker};
use crate::layout::decode_index;
use crate::oracle;
use crate::with_metric;

#[derive(Clone, Debug)]
pub struct FaultCfg {
    metric: Metric,
    dim: usize,
    base: usize,
    base_build: Option<BuildOpts>,
    pending: Vec<(u32, Option<usize>)>, // (id, Some(vector menu index) = add / None = delete)
    faulted: BuildOpts,
    kind: FaultKind,
}

#[derive(Clone, Debug, PartialEq)]
enum FaultKind {
    CancelAtEveryPoll,
    Tmpdir,
}

impl FaultCfg {
    fn to_json(&self) -> Value {
        json!({
            "metric": self.metric.short(), "dim": self.dim, "base_items": self.base,
            "base_build": self.base_build.as_ref().map(|b| json!({"n_trees": b.n_trees, "split_after": b.split_after})),
            "pending": self.pending.iter().map(|(id, op)| if op.is_some() { format!("add {id}") } else { format!("del {id}") }).collect::<Vec<_>>(),
            "faulted_build": {"n_trees": self.faulted.n_trees, "split_after": self.faulted.split_after, "seed": self.faulted.seed},
            "fault": format!("{:?}", self.kind),
        })
    }
}

pub struct FaultSys {
    cfgs: Vec<FaultCfg>,
}

fn fd_count() -> usize {
    std::fs::read_dir("/proc/self/fd").map(|d| d.count()).unwrap_or(0)
}

fn dir_listing(p: &Path) -> Vec<String> {
    let mut v: Vec<String> = std::fs::read_dir(p).map(|d| d.flatten().map(|e| e.file_name().to_string_lossy().to_string()).collect()).unwrap_or_default();
    v.sort();
    v
}

fn vector(dim: usize, k: usize) -> Vec<u32> {
    (0..dim).map(|j| ((((k * 3 + j * 5 + 1) % 7) as i32 - 3) as f32 + if j == 0 { 0.25 } else { 0.0 }).to_bits()).collect()
}

/// Builds the start state of `c` with real commits; returns the model of the pending state.
fn prepare(s: &Scratch, c: &FaultCfg) -> Result<BTreeMap<u32, Vec<u32>>, String> {
    let mut types = IndexTypes::new();
    types.insert(0, (c.metric, c.dim));
    let mut model = BTreeMap::new();
    let mut wtxn = s.env.write_txn().unwrap();
    s.db.clear(&mut wtxn).unwrap();
    for i in 0..c.base {
        let v = vector(c.dim, i);
        let (o, _) = exec(s.db, &mut wtxn, &mut types, &Action::Add { index: 0, id: i as u32, vec: v.clone() });
        if !o.is_ok() {
            return Err(o.describe());
        }
        model.insert(i as u32, v);
    }
    if let Some(b) = &c.base_build {
        let (o, _) = exec(s.db, &mut wtxn, &mut types, &Action::Build { index: 0, opts: b.clone() });
        if !o.is_ok() {
            return Err(format!("base build: {}", o.describe()));
        }
    }
    wtxn.commit().unwrap();
    // pending operations, committed too (updates pending across transactions)
    let mut wtxn = s.env.write_txn().unwrap();
    for (id, op) in &c.pending {
        match op {
            Some(k) => {
                let v = vector(c.dim, 20 + *k);
                exec(s.db, &mut wtxn, &mut types, &Action::Add { index: 0, id: *id, vec: v.clone() });
                model.insert(*id, v);
            }
            None => {
                exec(s.db, &mut wtxn, &mut types, &Action::Del { index: 0, id: *id });
                model.remove(id);
            }
        }
    }
    wtxn.commit().unwrap();
    Ok(model)
}

fn committed(s: &Scratch) -> Kv {
    let r = s.env.read_txn().unwrap();
    dump(s.db, &r)
}

/// Judges a valid index against the model: S + a few exact queries.
fn judge_valid(s: &Scratch, rtxn: &heed::RoTxn, kv: &Kv, c: &FaultCfg, model: &BTreeMap<u32, Vec<u32>>, w: &mut Worker) -> Result<(), (String, String)> {
    let ix = decode_index(kv, 0, c.metric, c.dim).map_err(|e| ("F/undecodable".to_string(), e))?;
    oracle::structure(&ix, &model.keys().copied().collect(), c.metric, c.dim)?;
    let qv: Vec<Vec<u32>> = vec![vector(c.dim, 1), vector(c.dim, 23)];
    crate::hist::exact_search_on(c.metric, c.dim, 0, s.db, rtxn, model, &qv, w)
}

impl FaultSys {
    fn run_cfg(&self, w: &mut Worker, c: &FaultCfg) -> Result<(), (String, String)> {
        let tmp = fresh_scratch_dir("c10tmp");
        let res = self.run_cfg_in(w, c, &tmp);
        let _ = std::fs::remove_dir_all(&tmp);
        res
    }

    fn run_cfg_in(&self, w: &mut Worker, c: &FaultCfg, tmp: &Path) -> Result<(), (String, String)> {
        // a private scratch environment with real commits
        let s = Scratch::new("c10");
        let model = prepare(&s, c).map_err(|e| ("M/prepare".to_string(), e))?;
        let before = committed(&s);
        // fault-free build first: the number of polls, and the reference verdict
        let (polls, _) = {
            let mut wtxn = s.env.write_txn().unwrap();
            let (r, t) = with_metric!(c.metric, D => run_build::<D>(s.db, &mut wtxn, 0, c.dim, &c.faulted, Some(tmp), None));
            if let Err(e) = r {
                return Err(("E/fault-free-build-failed".into(), format!("the build without a fault failed: {e}")));
            }
            let kv = s.dump(&wtxn);
            judge_valid(&s, &wtxn, &kv, c, &model, w).map_err(|(cl, m)| (format!("E/fault-free:{cl}"), m))?;
            wtxn.abort();
            (t.cancel_polls, t.progress_calls)
        };
        w.max("max_polls_of_a_build", polls);
        let positions: Vec<Option<u64>> = match c.kind {
            FaultKind::CancelAtEveryPoll => (0..=polls).map(Some).collect(),
            FaultKind::Tmpdir => vec![None; 3],
        };
        for (pi, pos) in positions.iter().enumerate() {
            let fds_before = fd_count();
            let listing_before = dir_listing(tmp);
            let mut opts = c.faulted.clone();
            let bad_tmp: Option<PathBuf> = match c.kind {
                FaultKind::CancelAtEveryPoll => {
                    opts.cancel_at = *pos;
                    None
                }
                FaultKind::Tmpdir => Some(match pi {
                    0 => tmp.join("does-not-exist"),
                    1 => {
                        let f = tmp.join("a-regular-file");
                        std::fs::write(&f, b"x").unwrap();
                        f
                    }
                    _ => PathBuf::from("/proc/self"),
                }),
            };
            let listing_before = if bad_tmp.is_some() { dir_listing(tmp) } else { listing_before };
            let mut wtxn = s.env.write_txn().unwrap();
            let tdir: &Path = bad_tmp.as_deref().unwrap_or(tmp);
            let r = crate::common::catch(|| with_metric!(c.metric, D => run_build::<D>(s.db, &mut wtxn, 0, c.dim, &opts, Some(tdir), None)));
            w.count("faulted_builds", 1);
            let what = match c.kind {
                FaultKind::CancelAtEveryPoll => format!("cancel answering true from poll {} of {polls}", pos.unwrap()),
                FaultKind::Tmpdir => format!("temp directory {tdir:?}"),
            };
            let (res, trace) = match r {
                Ok(x) => x,
                Err(p) => return Err((format!("E/build-panicked:{}", p.site()), format!("{what}: the build panicked at {}: {}", p.location, p.message))),
            };
            match (&c.kind, &res) {
                (FaultKind::CancelAtEveryPoll, Err(arroy::Error::BuildCancelled)) => {
                    w.count("reported_cancelled", 1);
                }
                (FaultKind::CancelAtEveryPoll, Ok(())) => {
                    // allowed only if the callback was never asked again after first answering true
                    if trace.polls_after_true > 0 {
                        return Err(("E/cancel-ignored".into(), format!("{what}: the build returned Ok although the callback answered true {} more times", trace.polls_after_true)));
                    }
                    let kv = s.dump(&wtxn);
                    judge_valid(&s, &wtxn, &kv, c, &model, w).map_err(|(cl, m)| (format!("E/ok-after-cancel:{cl}"), format!("{what}: the build returned Ok over an invalid index: {m}")))?;
                    w.count("completed_despite_cancel", 1);
                }
                (FaultKind::CancelAtEveryPoll, Err(e)) => {
                    return Err((format!("E/wrong-error:{}", ErrKind::of(e).tag()), format!("{what}: the build returned {e} instead of BuildCancelled")));
                }
                (FaultKind::Tmpdir, Err(e)) => match ErrKind::of(e) {
                    ErrKind::Io(_) | ErrKind::HeedIo(_) => w.count("reported_io_error", 1),
                    other => return Err((format!("E/wrong-error:{}", other.tag()), format!("{what}: the build returned {e}"))),
                },
                (FaultKind::Tmpdir, Ok(())) => {
                    // only when no scratch file is needed: everything fits one bucket
                    let cap = c.faulted.split_after.unwrap_or(c.dim);
                    if model.len() > cap {
                        return Err(("E/tmpdir-ignored".into(), format!("{what}: the build succeeded with {} items (capacity {cap}) — the configured temp directory was not used", model.len())));
                    }
                    w.count("tmpdir_not_needed", 1);
                }
            }
            // roll back
            wtxn.abort();
            let after = committed(&s);
            if after != before {
                return Err(("E/abort-left-trace".into(), format!("{what}: after aborting, the database differs from before the transaction: {}", crate::txnsys::diff_summary(&before, &after))));
            }
            // no scratch file, no descriptor left behind
            let listing_after = dir_listing(tmp);
            if listing_after != listing_before {
                return Err(("E/temp-file-left".into(), format!("{what}: the temp directory now holds {listing_after:?} (before: {listing_before:?})")));
            }
            let fds_after = fd_count();
            if fds_after != fds_before {
                return Err(("E/fd-leak".into(), format!("{what}: {fds_before} open descriptors before the build, {fds_after} after")));
            }
            if let Some(b) = &bad_tmp {
                if b.is_file() {
                    let _ = std::fs::remove_file(b);
                }
            }
        }
        // the same ArroyBuilder used for the faulted build and, after the abort, for the retry
        // (build borrows the transaction for the call only): every cancel position again
        if c.kind == FaultKind::CancelAtEveryPoll {
            for n in 0..=polls {
                self.same_builder_retry(w, &s, c, tmp, n, &model)?;
            }
        }
        // the temp directory is configured on a writer that then changes the metric: the new writer must still use it
        if c.kind == FaultKind::Tmpdir && c.metric == Metric::Euclidean && model.len() > c.faulted.split_after.unwrap_or(c.dim) {
            for bad in [tmp.join("does-not-exist"), PathBuf::from("/proc/self")] {
                let mut wtxn = s.env.write_txn().unwrap();
                let r = crate::common::catch(|| -> Result<(), arroy::Error> {
                    let mut writer = arroy::Writer::<arroy::distances::Euclidean>::new(crate::common::arroy_db::<arroy::distances::Euclidean>(s.db), 0, c.dim);
                    writer.set_tmpdir(&bad);
                    let writer = writer.prepare_changing_distance::<arroy::distances::Manhattan>(&mut wtxn)?;
                    let mut rng = <rand::rngs::StdRng as rand::SeedableRng>::seed_from_u64(c.faulted.seed);
                    let mut b = writer.builder(&mut rng);
                    if let Some(t) = c.faulted.n_trees {
                        b.n_trees(t);
                    }
                    if let Some(sa) = c.faulted.split_after {
                        b.split_after(sa);
                    }
                    b.build(&mut wtxn)
                });
                w.count("faulted_builds", 1);
                let what = format!("temp directory {bad:?} set before prepare_changing_distance");
                match r {
                    Err(p) => return Err((format!("E/build-panicked:{}", p.site()), format!("{what}: the build panicked at {}: {}", p.location, p.message))),
                    Ok(Ok(())) => return Err(("E/tmpdir-ignored".into(), format!("{what}: the build of the re-typed writer succeeded with {} items — the configured temp directory was not used", model.len()))),
                    Ok(Err(e)) => match ErrKind::of(&e) {
                        ErrKind::Io(_) | ErrKind::HeedIo(_) => w.count("reported_io_error", 1),
                        other => return Err((format!("E/wrong-error:{}", other.tag()), format!("{what}: the build returned {e}"))),
                    },
                }
                wtxn.abort();
                if committed(&s) != before {
                    return Err(("E/abort-left-trace".into(), format!("{what}: after aborting, the database differs from before the transaction")));
                }
            }
        }
        // the default temp directory (no set_tmpdir): $TMPDIR points to a missing directory, the build must report
        // the I/O error; $TMPDIR is repaired, the retry in the same process must succeed
        if c.kind == FaultKind::Tmpdir && model.len() > c.faulted.split_after.unwrap_or(c.dim) {
            let saved = std::env::var_os("TMPDIR");
            std::env::set_var("TMPDIR", tmp.join("missing-default-tmpdir"));
            let mut wtxn = s.env.write_txn().unwrap();
            let r = crate::common::catch(|| with_metric!(c.metric, D => run_build::<D>(s.db, &mut wtxn, 0, c.dim, &c.faulted, None, None)));
            w.count("faulted_builds", 1);
            let verdict: Result<(), (String, String)> = match r {
                Err(p) => Err((format!("E/build-panicked:{}", p.site()), format!("$TMPDIR missing: the build panicked at {}: {}", p.location, p.message))),
                Ok((Ok(()), _)) => Err(("E/tmpdir-ignored".into(), format!("$TMPDIR points to a missing directory and no temp directory is configured: the build succeeded with {} items", model.len()))),
                Ok((Err(e), _)) => match ErrKind::of(&e) {
                    ErrKind::Io(_) | ErrKind::HeedIo(_) => Ok(()),
                    other => Err((format!("E/wrong-error:{}", other.tag()), format!("$TMPDIR missing: the build returned {e}"))),
                },
            };
            wtxn.abort();
            std::env::set_var("TMPDIR", tmp);
            let retry = if verdict.is_ok() {
                let mut wtxn = s.env.write_txn().unwrap();
                let (r, _) = with_metric!(c.metric, D => run_build::<D>(s.db, &mut wtxn, 0, c.dim, &c.faulted, None, None));
                let out = r.map_err(|e| ("E/retry-failed:default-tmpdir".to_string(), format!("$TMPDIR repaired after a failed build: the retry in the same process returned {e}")));
                wtxn.abort();
                out
            } else {
                Ok(())
            };
            match saved {
                Some(v) => std::env::set_var("TMPDIR", v),
                None => std::env::remove_var("TMPDIR"),
            }
            verdict?;
            retry?;
        }
        // retry without the fault
        let mut wtxn = s.env.write_txn().unwrap();
        let (r, _) = with_metric!(c.metric, D => run_build::<D>(s.db, &mut wtxn, 0, c.dim, &c.faulted, Some(tmp), None));
        r.map_err(|e| ("E/retry-failed".to_string(), format!("the retry without the fault failed: {e}")))?;
        let kv = s.dump(&wtxn);
        judge_valid(&s, &wtxn, &kv, c, &model, w).map_err(|(cl, m)| (format!("E/retry:{cl}"), m))?;
        wtxn.commit().unwrap();
        w.count("start_states", 1);
        Ok(())
    }
}

impl FaultSys {
    /// One `ArroyBuilder`: build cancelled from poll `n` on, abort, then — the callback answering
    /// false again — build in a fresh transaction. The retry must succeed with a valid index.
    fn same_builder_retry(&self, w: &mut Worker, s: &Scratch, c: &FaultCfg, tmp: &Path, n: u64, model: &BTreeMap<u32, Vec<u32>>) -> Result<(), (String, String)> {
        use std::sync::atomic::{AtomicU64, Ordering};
        let polls = AtomicU64::new(0);
        let limit = AtomicU64::new(n);
        let what = format!("one ArroyBuilder: build cancelled from poll {n} on, abort, then build again with the callback answering false");
        let r = crate::common::catch(|| -> Result<Option<Kv>, (String, String)> {
            with_metric!(c.metric, D => {
                let mut writer = arroy::Writer::<D>::new(crate::common::arroy_db::<D>(s.db), 0, c.dim);
                writer.set_tmpdir(tmp);
                let mut rng = <rand::rngs::StdRng as rand::SeedableRng>::seed_from_u64(c.faulted.seed);
                let mut b = writer.builder(&mut rng);
                if let Some(t) = c.faulted.n_trees {
                    b.n_trees(t);
                }
                if let Some(sa) = c.faulted.split_after {
                    b.split_after(sa);
                }
                b.cancel(|| polls.fetch_add(1, Ordering::Relaxed) >= limit.load(Ordering::Relaxed));
                let mut wtxn = s.env.write_txn().unwrap();
                let first = b.build(&mut wtxn);
                wtxn.abort();
                if !matches!(first, Err(arroy::Error::BuildCancelled)) {
                    return Ok(None); // the build never asked again (or another verdict, judged by the main enumeration)
                }
                limit.store(u64::MAX, Ordering::Relaxed);
                let mut wtxn = s.env.write_txn().unwrap();
                b.build(&mut wtxn).map_err(|e| ("E/retry-failed:same-builder".to_string(), format!("{what}: the retry returned {e}")))?;
                let kv = s.dump(&wtxn);
                judge_valid(s, &wtxn, &kv, c, model, w).map_err(|(cl, m)| (format!("E/retry:same-builder:{cl}"), format!("{what}: {m}")))?;
                wtxn.abort();
                Ok(Some(kv))
            })
        });
        w.count("same_builder_retries", 1);
        match r {
            Ok(x) => x.map(|_| ()),
            Err(p) => Err((format!("E/build-panicked:{}", p.site()), format!("{what}: panic at {}: {}", p.location, p.message))),
        }
    }
}

impl System for FaultSys {
    type State = u8;
    type Action = usize;
    fn name(&self) -> &'static str {
        "faults"
    }
    fn config_json(&self) -> Value {
        json!({"start_states": self.cfgs.len()})
    }
    fn initial(&self) -> Vec<u8> {
        vec![0]
    }
    fn key(&self, s: &u8) -> u128 {
        *s as u128
    }
    fn actions(&self, s: &u8) -> Vec<usize> {
        if *s == 0 {
            (0..self.cfgs.len()).collect()
        } else {
            Vec::new()
        }
    }
    fn step(&self, w: &mut Worker, _s: &u8, a: &usize, _seen: &Seen) -> Step<u8> {
        let c = &self.cfgs[*a];
        match self.run_cfg(w, c) {
            Ok(()) => Step::none(),
            Err((sig, what)) => Step {
                next: None,
                violations: vec![Violation { signature: sig, what: format!("{} :: start state {}", what, c.to_json()), replay: json!({"fault_config": c.to_json()}) }],
            },
        }
    }
    fn action_json(&self, a: &usize) -> Value {
        self.cfgs[*a].to_json()
    }
    fn encode_state(&self, s: &u8, e: &mut Enc) {
        e.u8(*s)
    }
    fn decode_state(&self, d: &mut Dec) -> u8 {
        d.u8()
    }
    fn stop_layer_on_violation(&self) -> bool {
        true
    }
}

fn start_states(tier: Tier) -> Vec<FaultCfg> {
    let seed = crate::common::verif_seed();
    let b = |t: Option<usize>, s: Option<usize>| BuildOpts { n_trees: t, split_after: s, memory: None, seed, cancel_at: None };
    let metrics: Vec<(Metric, usize)> = match tier {
        Tier::Quick => vec![(Metric::Euclidean, 2), (Metric::BqCosine, 3), (Metric::DotProduct, 2), (Metric::Cosine, 3)],
        Tier::Thorough => vec![(Metric::Euclidean, 2), (Metric::Cosine, 3), (Metric::DotProduct, 2), (Metric::Manhattan, 2), (Metric::BqCosine, 3), (Metric::BqEuclidean, 2), (Metric::BqManhattan, 65)],
    };
    let bases: Vec<(usize, Option<BuildOpts>)> = match tier {
        Tier::Quick => vec![(0, None), (3, Some(b(Some(2), Some(1)))), (4, Some(b(Some(2), Some(1)))), (6, Some(b(None, None))), (6, Some(b(Some(3), Some(1))))],
        Tier::Thorough => vec![(0, None), (3, Some(b(Some(2), Some(1)))), (4, Some(b(Some(2), Some(1)))), (6, Some(b(None, None))), (6, Some(b(Some(3), Some(1)))), (9, Some(b(Some(2), Some(2)))), (14, Some(b(Some(4), Some(1)))), (25, Some(b(Some(2), Some(3))))],
    };
    let pendings: Vec<Vec<(u32, Option<usize>)>> = vec![
        vec![(100, Some(0))],
        vec![(100, Some(0)), (101, Some(1))],
        vec![(0, None)],
        vec![(1, None), (100, Some(2))],
        vec![(2, Some(3))],
        vec![(0, None), (1, None), (u32::MAX, Some(4))],
    ];
    let faulted: Vec<BuildOpts> = match tier {
        Tier::Quick => vec![b(Some(2), Some(1)), b(None, None), b(Some(3), Some(1))],
        Tier::Thorough => vec![b(Some(2), Some(1)), b(None, None), b(Some(1), Some(2)), b(Some(3), Some(1)), b(Some(1), Some(1)), b(Some(5), Some(2))],
    };
    let mut out = Vec::new();
    for (metric, dim) in metrics {
        for (base, bb) in &bases {
            for p in &pendings {
                // pending deletions need something to delete
                if p.iter().any(|(id, op)| op.is_none() && *id as usize >= *base) {
                    continue;
                }
                for f in &faulted {
                    out.push(FaultCfg { metric, dim, base: *base, base_build: bb.clone(), pending: p.clone(), faulted: f.clone(), kind: FaultKind::CancelAtEveryPoll });
                }
                out.push(FaultCfg { metric, dim, base: *base, base_build: bb.clone(), pending: p.clone(), faulted: faulted[0].clone(), kind: FaultKind::Tmpdir });
            }
        }
    }
    out
}

// ------------------------------------------------------------------------------------------
// (b) map sizes

/// `metric`: the metric of the index; `items_first`: the items of the first round are committed in a transaction of
/// their own and built in the next one (the build then has to copy clean pages: with DotProduct, whose
/// preprocessing pass rewrites every leaf header, that copy is what fills the smallest maps).
fn map_sizes(report: &mut Report, tier: Tier, metric: Metric, items_first: bool) {
    let (dim, n1, n2) = if tier == Tier::Quick { (130usize, 100usize, 20usize) } else { (130usize, 240usize, 60usize) };
    let page = 4096usize;
    let vecf = |i: usize| -> Vec<u32> { (0..dim).map(|j| ((((i * 7 + j * 3) % 23) as f32) - 11.0).to_bits()).collect() };
    let opts = BuildOpts { n_trees: Some(3), split_after: Some(8), memory: None, seed: 1, cancel_at: None };
    let mut first_ok: Option<usize> = None;
    let mut k = 4usize;
    let mut failing_calls: BTreeMap<String, u64> = BTreeMap::new();
    let mut sizes = 0u64;
    let big = Scratch::with_map_size("c10big", 256 << 20);
    loop {
        if let Some(f) = first_ok {
            if k > f + 16 {
                break;
            }
        }
        if k > 4000 {
            report.machinery_error("the map-size scenario never succeeded below 4000 pages".into());
            break;
        }
        sizes += 1;
        let s = Scratch::with_map_size("c10map", k * page);
        let mut types = IndexTypes::new();
        types.insert(0, (metric, dim));
        let mut model: BTreeMap<u32, Vec<u32>> = BTreeMap::new();
        // the two transactions of the scenario as action lists
        let txn1: Vec<Action> = (0..n1).map(|i| Action::Add { index: 0, id: i as u32, vec: vecf(i) }).chain([Action::Build { index: 0, opts: opts.clone() }]).collect();
        let txn2: Vec<Action> = (0..n1)
            .step_by(10)
            .map(|i| Action::Del { index: 0, id: i as u32 })
            // the new ids are the largest keys of the database: every second one goes through append_item, whose
            // refusal by LMDB for lack of space must be reported as such, not as an order refusal
            .chain((n1..n1 + n2).map(|i| if i % 2 == 0 { Action::Append { index: 0, id: i as u32, vec: vecf(i) } } else { Action::Add { index: 0, id: i as u32, vec: vecf(i) } }))
            .chain([Action::Build { index: 0, opts: opts.clone() }])
            .collect();
        // a third transaction without any item operation: the forest shrinks from 3 trees to 1 (two whole trees are deleted)
        let txn3: Vec<Action> = vec![Action::Build { index: 0, opts: BuildOpts { n_trees: Some(1), ..opts.clone() } }];
        let mut failed: Option<(usize, String, Vec<Action>)> = None; // (txn, failing call, actions of the failed txn)
        let txns: Vec<Vec<Action>> = if items_first {
            let (adds, build) = txn1.split_at(n1);
            vec![adds.to_vec(), build.to_vec(), txn2, txn3]
        } else {
            vec![txn1, txn2, txn3]
        };
        'txns: for (ti, acts) in txns.into_iter().enumerate() {
            let committed_model = model.clone();
            let mut wtxn = match s.env.write_txn() {
                Ok(w) => w,
                Err(e) => {
                    report.machinery_error(format!("write_txn with {k} pages: {e}"));
                    return;
                }
            };
            for a in &acts {
                let (o, _) = exec(s.db, &mut wtxn, &mut types, a);
                match &o {
                    crate::exec::Outcome::Unit | crate::exec::Outcome::Bool(_) => match a {
                        Action::Add { id, vec, .. } | Action::Append { id, vec, .. } => {
                            model.insert(*id, vec.clone());
                        }
                        Action::Del { id, .. } => {
                            model.remove(id);
                        }
                        _ => {}
                    },
                    crate::exec::Outcome::Err(ErrKind::MapFull) => {
                        let call = match a {
                            Action::Add { .. } => "add_item",
                            Action::Append { .. } => "append_item",
                            Action::Del { .. } => "del_item",
                            _ => "build",
                        };
                        failed = Some((ti, call.to_string(), acts.clone()));
                        model = committed_model;
                        wtxn.abort();
                        break 'txns;
                    }
                    other => {
                        report.add_violation(Violation {
                            signature: format!("E/map-full-wrong-outcome:{}", match other { crate::exec::Outcome::Panic(p) => p.site(), crate::exec::Outcome::Err(e) => e.tag(), _ => String::new() }),
                            what: format!("map of {k} pages: {} returned {} instead of MapFull", a.to_json()["op"], other.describe()),
                            replay: json!({"engine": "map-size", "pages": k}),
                        });
                        return;
                    }
                }
            }
            match wtxn.commit() {
                Ok(()) => {}
                Err(heed::Error::Mdb(heed::MdbError::MapFull)) => {
                    failed = Some((ti, "commit".to_string(), acts.clone()));
                    model = committed_model;
                    break 'txns;
                }
                Err(e) => {
                    report.add_violation(Violation::new("E/map-full-wrong-outcome:commit", format!("map of {k} pages: commit returned {e}")));
                    return;
                }
            }
        }
        match failed {
            None => {
                if first_ok.is_none() {
                    first_ok = Some(k);
                }
                *failing_calls.entry("none (scenario succeeded)".into()).or_insert(0) += 1;
                // the final index is valid
                let r = s.env.read_txn().unwrap();
                let kv = dump(s.db, &r);
                let ok = decode_index(&kv, 0, metric, dim).map_err(|e| ("F/undecodable".to_string(), e)).and_then(|ix| oracle::structure(&ix, &model.keys().copied().collect(), metric, dim).map(|_| ()));
                if let Err((c, m)) = ok {
                    report.add_violation(Violation::new(format!("E/map-ok:{c}"), format!("map of {k} pages: {m}")));
                    return;
                }
            }
            Some((ti, call, acts)) => {
                *failing_calls.entry(format!("transaction {} / {call}", ti + 1)).or_insert(0) += 1;
                // after the failure the committed content is intact and a retry with ample space succeeds
                let r = s.env.read_txn().unwrap();
                let committed_kv = dump(s.db, &r);
                drop(r);
                let mut wb = big.env.write_txn().unwrap();
                big.load(&mut wb, &committed_kv);
                let mut m2 = model.clone();
                for a in &acts {
                    let (o, _) = exec(big.db, &mut wb, &mut types, a);
                    if !o.is_ok() {
                        report.add_violation(Violation::new("E/retry-failed", format!("map of {k} pages: retrying the failed transaction with ample space: {} returned {}", a.to_json()["op"], o.describe())));
                        return;
                    }
                    match a {
                        Action::Add { id, vec, .. } | Action::Append { id, vec, .. } => {
                            m2.insert(*id, vec.clone());
                        }
                        Action::Del { id, .. } => {
                            m2.remove(id);
                        }
                        _ => {}
                    }
                }
                let kv = big.dump(&wb);
                wb.abort();
                // a transaction of item operations only (items_first) ends without a build: there is no forest to judge
                if !acts.iter().any(|a| matches!(a, Action::Build { .. })) {
                    k += 1;
                    continue;
                }
                let ok = decode_index(&kv, 0, metric, dim).map_err(|e| ("F/undecodable".to_string(), e)).and_then(|ix| oracle::structure(&ix, &m2.keys().copied().collect(), metric, dim).map(|_| ()));
                if let Err((c, m)) = ok {
                    report.add_violation(Violation::new(format!("E/retry:{c}"), format!("map of {k} pages, after {call} failed: the retry gives an invalid index: {m}")));
                    return;
                }
            }
        }
        k += 1;
    }
    let prefix = if items_first { format!("map_{}_items_committed_first", metric.short()) } else { "map".to_string() };
    report.cov(&format!("{prefix}_sizes_tried"), sizes);
    report.cov(&format!("{prefix}_first_success_pages"), first_ok.unwrap_or(0) as u64);
    report.cov(&format!("{prefix}_first_failing_call"), json!(failing_calls));
    report.cov_add("evaluations", sizes);
    report.cov_add("distinct_nontrivial", sizes.saturating_sub(17));
}

pub fn run(tier: Tier) -> i32 {
    let mut report = Report::new("C10", tier, "fault_enumeration");
    report.assume("monotone cancellation callbacks (once true, always true); LMDB/heed report MapFull; the sandbox runs as root, so unusable temp directories are a missing path, a regular file and /proc/self rather than permission bits");
    let cfgs = start_states(tier);
    let n = cfgs.len();
    let sys = FaultSys { cfgs };
    let caps = Caps { max_transitions: 10_000_000, max_wall: Duration::from_secs(if tier == Tier::Quick { 40 } else { 1500 }), max_signatures: 8 };
    let o = explore(&sys, &caps);
    eprintln!("[C10] start states={n} counters={:?} cap={:?} violations={}", o.counters, o.cap_hit, o.violations.len());
    // the generic recorder speaks the model-checking vocabulary; translate
    let mut tmp = Report::new("C10", tier, "fault_enumeration");
    record(&mut tmp, "faults", &o);
    for (_, v) in tmp.violations {
        report.add_violation(v);
    }
    for e in tmp.machinery_errors {
        report.machinery_error(e);
    }
    let faulted = o.counters.get("faulted_builds").copied().unwrap_or(0);
    report.cov("evaluations", faulted);
    report.cov("distinct_nontrivial", o.counters.get("reported_cancelled").copied().unwrap_or(0) + o.counters.get("reported_io_error").copied().unwrap_or(0));
    report.cov("start_states", n as u64);
    report.cov("start_states_completed", o.counters.get("start_states").copied().unwrap_or(0));
    for k in ["reported_cancelled", "completed_despite_cancel", "reported_io_error", "tmpdir_not_needed", "max_polls_of_a_build"] {
        report.cov(k, o.counters.get(k).copied().unwrap_or(0));
    }
    report.cov("exhaustive", o.cap_hit.is_none());
    if let Some(c) = &o.cap_hit {
        report.cov("cap_hit", c.clone());
    }
    crate::explore::in_single_thread_pool(|| {
        map_sizes(&mut report, tier, Metric::Euclidean, false);
        // DotProduct (the only metric whose build starts with a pass that rewrites every leaf), items committed first
        if report.violations.is_empty() && report.machinery_errors.is_empty() {
            map_sizes(&mut report, tier, Metric::DotProduct, true);
        }
    });
    report.cov("rule", "(a) for every start state (base population x base build x pending insertions/deletions/overwrites, committed) and every build configuration: the cancel callback answers true from its n-th call, for every n in 0..=polls of the fault-free build; (b) LMDB maps of k pages for every k from 4 up to 16 past the first size at which the two-transaction scenario succeeds; (c) three unusable temp directories per start state. Judged: the error value (BuildCancelled / MapFull / Io), never a panic, Ok only when the callback was not asked again (then S and X hold), abort restores the exact previous dump, a retry without the fault succeeds with S and X, the temp directory listing and the number of open descriptors are identical before and after every build. A fault is non-trivial when it really interrupted the build (an error was reported).");
    report.sample(json!({"start_state": sys.cfgs.get(7).map(|c| c.to_json()), "fault": "cancel answering true from poll n, for every n"}));
    report.finish()
}
