//! E5 — exhaustive enumeration of input shapes for the distance kernels (C11) and the binary
//! quantisation (C12): length x byte offset x kernel x pattern family x position, over a
//! finite value alphabet, against f64 / integer references.

use std::borrow::Cow;
use std::sync::atomic::{AtomicU64, Ordering};
use std::sync::Mutex;

use arroy::internals::{Leaf, UnalignedVector};
use arroy::Distance;
use rayon::prelude::*;
use serde_json::json;

use crate::common::{arroy_db, catch, floats_of, Metric, Report, Scratch, Tier, Violation};
use crate::oracle::{true_distance, EPS32};
use crate::with_metric;

type BQ = <arroy::distances::BinaryQuantizedEuclidean as Distance>::VectorCodec;

/// A byte buffer holding `v` as native f32s starting at byte offset `off` of an 64-aligned block.
struct Placed {
    buf: Vec<u8>,
    start: usize,
    len: usize,
}

impl Placed {
    fn new(v: &[f32], off: usize) -> Placed {
        let mut buf = vec![0u8; v.len() * 4 + off + 128];
        let base = buf.as_ptr() as usize;
        let start = (64 - base % 64) % 64 + off;
        for (i, x) in v.iter().enumerate() {
            buf[start + 4 * i..start + 4 * i + 4].copy_from_slice(&x.to_ne_bytes());
        }
        Placed { buf, start, len: v.len() * 4 }
    }
    fn bytes(&self) -> &[u8] {
        &self.buf[self.start..self.start + self.len]
    }
}

fn tol(n: usize, sum_abs_terms: f64) -> f64 {
    (n as f64 + 8.0) * EPS32 * sum_abs_terms + (n as f64 + 1.0) * 1.4e-45
}

struct Case {
    family: &'static str,
    u: Vec<f32>,
    v: Vec<f32>,
    note: String,
}

const ALPHABET: [f32; 7] = [1.0, -1.0, 0.375, 1024.0, 7.5231638e-37 /* 2^-120 */, 1.0e-40 /* subnormal */, -0.0];

fn one_hot_pairs(thorough: bool) -> Vec<(f32, f32)> {
    let mut v = Vec::new();
    if thorough {
        for a in ALPHABET {
            for b in ALPHABET {
                v.push((a, b));
            }
        }
    } else {
        v.extend([(1.0, 0.0), (-1.0, 1.0), (0.375, -0.375), (1024.0, 1.0), (7.5231638e-37, -7.5231638e-37), (1.0e-40, 1.0), (-0.0, 1024.0), (1.0, 1.0)]);
    }
    v
}

fn families(n: usize) -> Vec<Case> {
    let mut out = Vec::new();
    let ones = vec![1.0f32; n];
    out.push(Case { family: "all-ones vs ramp", u: ones.clone(), v: (0..n).map(|i| (i % 17) as f32 * 0.25).collect(), note: String::new() });
    out.push(Case { family: "alternating sign", u: (0..n).map(|i| if i % 2 == 0 { 1.5 } else { -1.5 }).collect(), v: (0..n).map(|i| if i % 3 == 0 { -2.0 } else { 0.5 }).collect(), note: String::new() });
    out.push(Case { family: "ramp", u: (0..n).map(|i| i as f32 - 7.0).collect(), v: (0..n).map(|i| (n - i) as f32 * 0.5).collect(), note: String::new() });
    // cancellation: a and a + delta with large a
    out.push(Case { family: "cancellation", u: (0..n).map(|i| 16384.0 + i as f32).collect(), v: (0..n).map(|i| 16384.0 + i as f32 + if i % 2 == 0 { 0.0078125 } else { -0.5 }).collect(), note: String::new() });
    // huge values with a bounded sum of terms
    let h = (f32::MAX as f64 / (4.0 * n as f64 + 4.0)).sqrt() as f32 * 0.5;
    out.push(Case { family: "huge bounded", u: (0..n).map(|i| if i % 2 == 0 { h } else { -h }).collect(), v: (0..n).map(|i| if i % 4 < 2 { h * 0.5 } else { -h * 0.25 }).collect(), note: String::new() });
    // tiny values
    // one operand of tiny norm (1e-8 scale, far above underflow), the other large: the product of the norms is ordinary
    out.push(Case { family: "mixed scale", u: (0..n).map(|i| 1.0e-8 * ((i % 7) as f32 - 2.5)).collect(), v: (0..n).map(|i| 1.0e4 * ((i % 5) as f32 - 1.75)).collect(), note: String::new() });
    out.push(Case { family: "tiny", u: (0..n).map(|i| 1.0e-30 * (1 + i % 5) as f32).collect(), v: (0..n).map(|i| -3.0e-31 * (1 + i % 3) as f32).collect(), note: String::new() });
    // identical operands
    out.push(Case { family: "self", u: (0..n).map(|i| (i as f32 * 0.37).sin() * 3.0 + 0.1).collect(), v: (0..n).map(|i| (i as f32 * 0.37).sin() * 3.0 + 0.1).collect(), note: String::new() });
    out
}

fn exact_sq_euclid(u: &[f32], v: &[f32]) -> (f64, f64) {
    let s: f64 = u.iter().zip(v).map(|(a, b)| (*a as f64 - *b as f64).powi(2)).sum();
    (s, s)
}

fn exact_dot(u: &[f32], v: &[f32]) -> (f64, f64) {
    let s: f64 = u.iter().zip(v).map(|(a, b)| *a as f64 * *b as f64).sum();
    let abs: f64 = u.iter().zip(v).map(|(a, b)| (*a as f64 * *b as f64).abs()).sum();
    (s, abs)
}

/// Judges both raw kernels (squared euclidean, dot product) of one case on every kernel and offset pair.
fn judge_kernels(case: &Case, offsets: &[usize], kernels: &[&'static str], evals: &AtomicU64, nontrivial: &AtomicU64) -> Result<(), Violation> {
    let n = case.u.len();
    let (e_exact, e_abs) = exact_sq_euclid(&case.u, &case.v);
    let (d_exact, d_abs) = exact_dot(&case.u, &case.v);
    if !(e_abs < f32::MAX as f64 / 2.0 && d_abs < f32::MAX as f64 / 2.0) {
        return Ok(()); // overflow, not rounding, would decide: no verdict
    }
    if e_exact != 0.0 || d_exact != 0.0 {
        nontrivial.fetch_add(1, Ordering::Relaxed);
    }
    for &ou in offsets {
        for &ov in offsets {
            let pu = Placed::new(&case.u, ou);
            let pv = Placed::new(&case.v, ov);
            let mut seen: Vec<(&str, f32, f32)> = Vec::new();
            for &k in kernels {
                let r = catch(|| {
                    (
                        arroy::verif::kernels::euclidean(k, pu.bytes(), pv.bytes()),
                        arroy::verif::kernels::dot(k, pu.bytes(), pv.bytes()),
                        arroy::verif::kernels::euclidean(k, pv.bytes(), pu.bytes()),
                        arroy::verif::kernels::dot(k, pv.bytes(), pu.bytes()),
                    )
                });
                let (e, d, e2, d2) = match r {
                    Ok((Some(e), Some(d), Some(e2), Some(d2))) => (e, d, e2, d2),
                    Ok(_) => continue, // kernel not available on this host
                    Err(p) => {
                        return Err(Violation {
                            signature: format!("D/kernel-panicked:{k}"),
                            what: format!("kernel {k} panicked on n={n}: {}", p.message),
                            replay: json!({"engine": "kernels", "kernel": k, "n": n, "family": case.family, "note": case.note, "offsets": [ou, ov]}),
                        })
                    }
                };
                evals.fetch_add(4, Ordering::Relaxed);
                let bad = |what: &str, got: f32, exact: f64, t: f64| Violation {
                    signature: format!("D/{what}:{k}"),
                    what: format!("{what} kernel `{k}`, n={n}, byte offsets ({ou},{ov}), family {} {}: got {got:e}, definition {exact:e}, tolerance {t:e}", case.family, case.note),
                    replay: json!({"engine": "kernels", "kernel": k, "n": n, "family": case.family, "note": case.note, "offsets": [ou, ov],
                                   "u_bits": case.u.iter().map(|x| x.to_bits()).collect::<Vec<_>>(), "v_bits": case.v.iter().map(|x| x.to_bits()).collect::<Vec<_>>()}),
                };
                let te = tol(n, e_abs);
                let td = tol(n, d_abs);
                if !((e as f64 - e_exact).abs() <= te) {
                    return Err(bad("squared-euclidean", e, e_exact, te));
                }
                if !((d as f64 - d_exact).abs() <= td) {
                    return Err(bad("dot-product", d, d_exact, td));
                }
                if !((e as f64 - e2 as f64).abs() <= 2.0 * te) || !((d as f64 - d2 as f64).abs() <= 2.0 * td) {
                    return Err(bad("symmetry", e2, e as f64, 2.0 * te));
                }
                if case.family == "self" && e != 0.0 {
                    return Err(bad("self-distance", e, 0.0, 0.0));
                }
                seen.push((k, e, d));
            }
            // the vectorised paths agree with the plain loop
            if let Some((_, se, sd)) = seen.iter().find(|(k, _, _)| *k == "scalar").copied() {
                for (k, e, d) in &seen {
                    if ((*e as f64) - se as f64).abs() > 2.0 * tol(n, e_abs) || ((*d as f64) - sd as f64).abs() > 2.0 * tol(n, d_abs) {
                        return Err(Violation {
                            signature: format!("D/kernel-disagreement:{k}"),
                            what: format!("kernel `{k}` and the plain loop disagree on n={n}, family {} {}: euclid {e:e} vs {se:e}, dot {d:e} vs {sd:e}", case.family, case.note),
                            replay: json!({"engine": "kernels", "kernel": k, "n": n, "family": case.family}),
                        });
                    }
                }
            }
        }
    }
    Ok(())
}

fn leaf<'a, D: Distance<VectorCodec = f32>>(bytes: &'a [u8]) -> Leaf<'a, D> {
    let vector: Cow<'a, UnalignedVector<f32>> = UnalignedVector::<f32>::from_bytes(bytes).expect("multiple of 4");
    Leaf { header: D::new_header(&vector), vector }
}

/// Judges the full reported distance of the four float metrics through the public trait functions.
fn judge_metrics(case: &Case, offsets: &[usize], evals: &AtomicU64) -> Result<(), Violation> {
    let n = case.u.len();
    let ub: Vec<u32> = case.u.iter().map(|x| x.to_bits()).collect();
    let vb: Vec<u32> = case.v.iter().map(|x| x.to_bits()).collect();
    let (_, e_abs) = exact_sq_euclid(&case.u, &case.v);
    let (_, d_abs) = exact_dot(&case.u, &case.v);
    let (_, uu) = exact_dot(&case.u, &case.u);
    let (_, vv) = exact_dot(&case.v, &case.v);
    if !(e_abs < f32::MAX as f64 / 2.0 && d_abs < f32::MAX as f64 / 2.0 && uu < f32::MAX as f64 / 2.0 && vv < f32::MAX as f64 / 2.0) {
        return Ok(());
    }
    for &ou in offsets {
        let ov = (ou + 1) % 4;
        let pu = Placed::new(&case.u, ou);
        let pv = Placed::new(&case.v, ov);
        for metric in [Metric::Euclidean, Metric::Manhattan, Metric::Cosine, Metric::DotProduct] {
            let (got, got_rev, got_self) = match metric {
                Metric::Euclidean => dist3::<arroy::distances::Euclidean>(pu.bytes(), pv.bytes(), n),
                Metric::Manhattan => dist3::<arroy::distances::Manhattan>(pu.bytes(), pv.bytes(), n),
                Metric::Cosine => dist3::<arroy::distances::Cosine>(pu.bytes(), pv.bytes(), n),
                Metric::DotProduct => dist3::<arroy::distances::DotProduct>(pu.bytes(), pv.bytes(), n),
                _ => unreachable!(),
            };
            evals.fetch_add(3, Ordering::Relaxed);
            let mk = |clause: &str, msg: String| Violation {
                signature: format!("D/{clause}:{}", metric.short()),
                what: format!("{} n={n} offsets ({ou},{ov}) family {} {}: {msg}", metric.short(), case.family, case.note),
                replay: json!({"engine": "kernels", "metric": metric.short(), "n": n, "family": case.family, "note": case.note,
                               "u_bits": ub, "v_bits": vb}),
            };
            // tiny squared norms underflow in f32: the cosine of such pairs is not judged
            if metric == Metric::Cosine && (uu < 1e-30 || vv < 1e-30) && uu != 0.0 && vv != 0.0 {
                continue;
            }
            if let Some((t, tl)) = true_distance(metric, n, &ub, &vb) {
                // euclidean: sqrt halves the relative error but tiny values need the absolute floor
                let tl = tl + if metric == Metric::Euclidean { ((n as f64 + 1.0) * 1.4e-45).sqrt() } else { (n as f64 + 1.0) * 1.4e-45 };
                if !((got as f64 - t).abs() <= tl) {
                    return Err(mk("reported-distance", format!("reported {got:e}, definition {t:e}, tolerance {tl:e}")));
                }
                if !((got as f64 - got_rev as f64).abs() <= 2.0 * tl) {
                    return Err(mk("symmetry", format!("d(a,b) = {got:e} but d(b,a) = {got_rev:e}")));
                }
            }
            match metric {
                Metric::Euclidean | Metric::Manhattan => {
                    if got_self != 0.0 {
                        return Err(mk("self-distance", format!("d(a,a) = {got_self:e}")));
                    }
                }
                Metric::Cosine => {
                    if !(got_self.abs() as f64 <= 2.0 * EPS32) {
                        return Err(mk("self-distance", format!("cosine d(a,a) = {got_self:e}")));
                    }
                    // the statement gives the closed interval: the implementation clamps the cosine
                    if !(0.0..=1.0).contains(&got) || got_self < 0.0 {
                        return Err(mk("cosine-range", format!("cosine distance d(a,b) = {got:e}, d(a,a) = {got_self:e}: outside [0,1]")));
                    }
                    if (uu == 0.0 || vv == 0.0) && got != 0.0 {
                        return Err(mk("cosine-zero-norm", format!("cosine distance with a zero norm is {got:e}")));
                    }
                }
                _ => {}
            }
        }
    }
    Ok(())
}

fn dist3<D: Distance<VectorCodec = f32>>(u: &[u8], v: &[u8], dim: usize) -> (f32, f32, f32) {
    let lu = leaf::<D>(u);
    let lv = leaf::<D>(v);
    (
        D::normalized_distance(D::built_distance(&lu, &lv), dim),
        D::normalized_distance(D::built_distance(&lv, &lu), dim),
        D::normalized_distance(D::built_distance(&lu, &lu), dim),
    )
}

pub fn c11(tier: Tier) -> i32 {
    let mut report = Report::new("C11", tier, "exploration");
    let thorough = tier == Tier::Thorough;
    let kernels: Vec<&'static str> = arroy::verif::kernels::available();
    let offsets: Vec<usize> = if thorough { (0..32).collect() } else { vec![0, 1, 2, 3, 4, 7] };
    // the thorough tier crosses all 32 offsets only for the one-hot family of a few value pairs
    let pairs = one_hot_pairs(thorough);
    let evals = AtomicU64::new(0);
    let nontrivial = AtomicU64::new(0);
    let cases_n = AtomicU64::new(0);
    let first: Mutex<Vec<Violation>> = Mutex::new(Vec::new());
    let small_offsets: Vec<usize> = vec![0, 1, 2, 3];
    (1usize..=300).into_par_iter().for_each(|n| {
        if first.lock().unwrap().len() >= 6 {
            return;
        }
        let mut push = |r: Result<(), Violation>| {
            if let Err(v) = r {
                first.lock().unwrap().push(v);
            }
        };
        // (i) one-hot: every position contributes exactly once
        for i in 0..n {
            for (pi, (x, y)) in pairs.iter().enumerate() {
                let mut u = vec![0.0f32; n];
                let mut v = vec![0.0f32; n];
                u[i] = *x;
                v[i] = *y;
                let case = Case { family: "one-hot", u, v, note: format!("position {i}, values ({x:e},{y:e})") };
                cases_n.fetch_add(1, Ordering::Relaxed);
                // all offsets for the first value pairs, the four basic ones for the rest
                let offs: &[usize] = if thorough && pi < 3 { &offsets } else { &small_offsets };
                let offs: Vec<usize> = if thorough && pi < 3 { offs.iter().copied().filter(|o| *o < 32).collect() } else { offs.to_vec() };
                // to bound the thorough product: the (ou, ov) square is full for <= 4 offsets, diagonal + row beyond
                if offs.len() > 4 {
                    for &o in &offs {
                        push(judge_kernels(&case, &[o], &kernels, &evals, &nontrivial));
                    }
                    push(judge_kernels(&case, &[0, 5, 17, 31], &kernels, &evals, &nontrivial));
                } else {
                    push(judge_kernels(&case, &offs, &kernels, &evals, &nontrivial));
                }
                if pi < 2 {
                    push(judge_metrics(&case, &small_offsets, &evals));
                }
            }
        }
        // (ii)-(iv) dense families
        for case in families(n) {
            cases_n.fetch_add(1, Ordering::Relaxed);
            push(judge_kernels(&case, if thorough { &offsets[..8.min(offsets.len())] } else { &offsets }, &kernels, &evals, &nontrivial));
            push(judge_metrics(&case, &small_offsets, &evals));
        }
    });
    for v in first.into_inner().unwrap() {
        report.add_violation(v);
    }
    // end-to-end slice: the distances QueryBuilder reports
    let e2e_dims = [1usize, 15, 16, 17, 31, 32, 33, 64, 65, 300];
    let mut e2e_queries = 0u64;
    crate::explore::in_single_thread_pool(|| {
        for metric in [Metric::Euclidean, Metric::Manhattan, Metric::Cosine, Metric::DotProduct] {
            for &d in &e2e_dims {
                match end_to_end(metric, d) {
                    Ok(q) => e2e_queries += q,
                    Err(v) => report.add_violation(v),
                }
            }
        }
    });
    report.cov("evaluations", evals.load(Ordering::Relaxed));
    report.cov("distinct_nontrivial", nontrivial.load(Ordering::Relaxed));
    report.cov("cases", cases_n.load(Ordering::Relaxed));
    report.cov("end_to_end_queries", e2e_queries);
    report.cov("exhaustive", true);
    report.cov("rule", "for every length n in 1..=300: every one-hot position i < n with each value pair of the alphabet, plus seven dense families (ones/ramp, alternating sign, ramp, cancellation, huge bounded, tiny, self); each case on every available kernel (dispatch, scalar, sse, avx through the hook) and every pair of byte offsets of the stored operands; a case is non-trivial when the exact squared distance or dot product is non-zero; evaluations = kernel calls + trait-level distance calls");
    report.cov("kernels", json!(kernels));
    report.cov("offsets", json!(offsets));
    report.cov("value_pairs", json!(pairs.iter().map(|(a, b)| format!("({a:e},{b:e})")).collect::<Vec<_>>()));
    report.sample(json!({"family": "one-hot", "n": 33, "position": 32, "values": [1024.0, 1.0], "kernels": kernels, "expect": {"squared_euclidean": 1046529.0, "dot": 1024.0}}));
    report.sample(json!({"family": "cancellation", "n": 17, "u[i]": "16384 + i", "v[i]": "u[i] + 2^-7 (even i) / u[i] - 0.5 (odd i)"}));
    report.assume("values outside the alphabet are not covered; the host CPU executes AVX/FMA/SSE as specified");
    report.assume("tolerance |got - exact| <= (n+8) 2^-23 sum|term_i| + (n+1) 2^-149, valid for any summation order with or without FMA");
    report.finish()
}

fn pattern_vec(d: usize, k: usize) -> Vec<f32> {
    (0..d).map(|j| (((j * 7 + k * 13) % 11) as f32 - 5.0) * if (j + k) % 3 == 0 { 0.5 } else { 1.0 }).collect()
}

fn end_to_end(metric: Metric, d: usize) -> Result<u64, Violation> {
    let s = Scratch::new("c11");
    let mut wtxn = s.env.write_txn().unwrap();
    let mut model = std::collections::BTreeMap::new();
    let mut queries = 0u64;
    let r = catch(|| -> Result<(), (String, String)> {
        with_metric!(metric, D => {
            let w = arroy::Writer::<D>::new(arroy_db::<D>(s.db), 0, d);
            for id in 0..9u32 {
                let v = pattern_vec(d, id as usize);
                // ascending ids in an otherwise empty database: every second item goes through append_item
                if id % 2 == 1 {
                    w.append_item(&mut wtxn, id, &v).map_err(|e| ("D/e2e".to_string(), e.to_string()))?;
                } else {
                    w.add_item(&mut wtxn, id, &v).map_err(|e| ("D/e2e".to_string(), e.to_string()))?;
                }
                model.insert(id, crate::common::bits_of(&v));
            }
            let mut rng = <rand::rngs::StdRng as rand::SeedableRng>::seed_from_u64(3);
            w.builder(&mut rng).n_trees(2).build(&mut wtxn).map_err(|e| ("D/e2e".to_string(), e.to_string()))?;
            let reader = arroy::Reader::<D>::open(&wtxn, 0, arroy_db::<D>(s.db)).map_err(|e| ("D/e2e".to_string(), e.to_string()))?;
            for k in 0..12usize {
                let q = crate::common::bits_of(&pattern_vec(d, k + 5));
                let res = crate::hist::query::<D>(&reader, &wtxn, None, Some(&floats_of(&q)), 9, Some(usize::MAX), None, None)
                    .map_err(|e| ("D/e2e".to_string(), e))?
                    .unwrap();
                queries += 1;
                crate::oracle::check_result(metric, d, &model, &q, 9, None, &res, crate::oracle::Exactness::Exact, true)
                    .map_err(|(c, m)| (format!("D/e2e-{c}"), format!("dimension {d}: {m}")))?;
            }
            // by item: the query's header is the stored one (filled by the build's preprocessing pass), not a fresh one
            for id in 0..9u32 {
                let res = crate::hist::query::<D>(&reader, &wtxn, Some(id), None, 9, Some(usize::MAX), None, None)
                    .map_err(|e| ("D/e2e".to_string(), e))?
                    .unwrap();
                queries += 1;
                crate::oracle::check_result(metric, d, &model, &model[&id], 9, None, &res, crate::oracle::Exactness::Exact, true)
                    .map_err(|(c, m)| (format!("D/e2e-by-item-{c}"), format!("dimension {d}, by_item({id}): {m}")))?;
            }
            Ok(())
        })
    });
    match r {
        Ok(Ok(())) => Ok(queries),
        Ok(Err((c, m))) => Err(Violation { signature: format!("{c}:{}", metric.short()), what: m, replay: json!({"engine": "kernels", "metric": metric.short(), "dim": d, "end_to_end": true}) }),
        Err(p) => Err(Violation { signature: format!("D/e2e-panicked:{}", p.site()), what: p.message, replay: json!({"engine": "kernels", "metric": metric.short(), "dim": d, "end_to_end": true}) }),
    }
}

// ------------------------------------------------------------------------------------------
// C12

const POS_REPR: [u32; 5] = [0x0000_0000, 0x3f80_0000, 0x7f80_0000, 0x7fc0_0001, 0x0000_0001]; // +0, 1, +inf, +NaN, subnormal
const NEG_REPR: [u32; 4] = [0x8000_0000, 0xbf80_0000, 0xff80_0000, 0xffc1_2345]; // -0, -1, -inf, -NaN

/// Renders a sign pattern (true = positive sign bit) with representation map `map`.
fn render(pattern: &[bool], map: usize) -> Vec<f32> {
    pattern
        .iter()
        .enumerate()
        .map(|(j, p)| {
            let bits = if *p { POS_REPR[(j + map * 2) % POS_REPR.len()] } else { NEG_REPR[(j + map) % NEG_REPR.len()] };
            f32::from_bits(bits)
        })
        .collect()
}

fn expect_readback(pattern: &[bool]) -> Vec<f32> {
    let padded = pattern.len().div_ceil(64) * 64;
    (0..padded).map(|j| if j < pattern.len() && pattern[j] { 1.0 } else { -1.0 }).collect()
}

fn bq_conversions(pattern: &[bool], evals: &AtomicU64) -> Result<(), Violation> {
    let d = pattern.len();
    let want = expect_readback(pattern);
    for map in 0..2 {
        let input = render(pattern, map);
        let r = catch(|| {
            let a = UnalignedVector::<BQ>::from_slice(&input);
            let b = UnalignedVector::<BQ>::from_vec(input.clone());
            let it: Vec<f32> = a.iter().collect();
            let iter_len = {
                let i = a.iter();
                i.len()
            };
            (a.to_vec(), b.to_vec(), it, a.len(), iter_len)
        });
        evals.fetch_add(4, Ordering::Relaxed);
        let mk = |clause: &str, msg: String| Violation {
            signature: format!("Q/{clause}"),
            what: format!("dimension {d}, sign pattern {}, representation map {map}: {msg}", show_pattern(pattern)),
            replay: json!({"engine": "bq", "dim": d, "pattern": pattern, "map": map}),
        };
        match r {
            Ok((from_slice, from_vec, iter, len, iter_len)) => {
                if from_slice != want {
                    return Err(mk("from_slice-to_vec", format!("reads back {:?}…, expected {:?}…", &from_slice[..d.min(8)], &want[..d.min(8)])));
                }
                if from_vec != want {
                    return Err(mk("from_vec-to_vec", "from_vec differs from the sign pattern".into()));
                }
                if iter != want {
                    return Err(mk("iter", "iter() differs from the sign pattern".into()));
                }
                if len != want.len() || iter_len != want.len() {
                    return Err(mk("len", format!("len() = {len}, iter().len() = {iter_len}, expected {}", want.len())));
                }
            }
            Err(p) => return Err(mk("panicked", p.message)),
        }
    }
    Ok(())
}

fn show_pattern(p: &[bool]) -> String {
    let s: String = p.iter().take(70).map(|b| if *b { '+' } else { '-' }).collect();
    if p.len() > 70 {
        format!("{s}…")
    } else {
        s
    }
}

fn bq_leaf<D: Distance<VectorCodec = BQ>>(v: &[f32]) -> Leaf<'static, D> {
    let vector = UnalignedVector::<BQ>::from_vec(v.to_vec());
    Leaf { header: D::new_header(&vector), vector }
}

fn bq_dist<D: Distance<VectorCodec = BQ>>(a: &[f32], b: &[f32], d: usize) -> (f32, f32) {
    let la = bq_leaf::<D>(a);
    let lb = bq_leaf::<D>(b);
    (D::normalized_distance(D::built_distance(&la, &lb), d), D::normalized_distance(D::built_distance(&lb, &la), d))
}

/// Distances of one pair of patterns under the three quantised metrics: (h, [euclid, manhattan, cosine]).
fn bq_pair(pa: &[bool], pb: &[bool], evals: &AtomicU64) -> Result<(u64, [f32; 3]), Violation> {
    let d = pa.len();
    let a = render(pa, 0);
    let b = render(pb, 1);
    let h = pa.iter().zip(pb).filter(|(x, y)| x != y).count() as u64;
    let r = catch(|| {
        [
            bq_dist::<arroy::distances::BinaryQuantizedEuclidean>(&a, &b, d),
            bq_dist::<arroy::distances::BinaryQuantizedManhattan>(&a, &b, d),
            bq_dist::<arroy::distances::BinaryQuantizedCosine>(&a, &b, d),
        ]
    });
    evals.fetch_add(6, Ordering::Relaxed);
    let mk = |clause: &str, msg: String| Violation {
        signature: format!("Q/{clause}"),
        what: format!("dimension {d}, patterns {} / {} (h = {h}): {msg}", show_pattern(pa), show_pattern(pb)),
        replay: json!({"engine": "bq", "dim": d, "a": pa, "b": pb}),
    };
    let got = match r {
        Ok(g) => g,
        Err(p) => return Err(mk("distance-panicked", p.message)),
    };
    let padded = (d.div_ceil(64) * 64) as f64;
    let want = [4.0 * h as f64 / d as f64, 2.0 * h as f64 / d as f64, h as f64 / padded];
    let names = ["euclidean 4h/d", "manhattan 2h/d", "cosine h/D'"];
    for i in 0..3 {
        let t = if i == 2 { 2.0 * EPS32 } else { want[i] * EPS32 };
        if !((got[i].0 as f64 - want[i]).abs() <= t) {
            return Err(mk(&format!("distance-{}", ["euclidean", "manhattan", "cosine"][i]), format!("{} = {:e}, expected {:e}", names[i], got[i].0, want[i])));
        }
        if got[i].0.to_bits() != got[i].1.to_bits() {
            return Err(mk("symmetry", format!("{}: d(a,b) = {:e}, d(b,a) = {:e}", names[i], got[i].0, got[i].1)));
        }
        if h == 0 && i < 2 && got[i].0 != 0.0 {
            return Err(mk("zero", format!("{} of equal patterns is {:e}", names[i], got[i].0)));
        }
    }
    Ok((h, [got[0].0, got[1].0, got[2].0]))
}

fn family_patterns(d: usize) -> Vec<Vec<bool>> {
    let mut out: Vec<Vec<bool>> = Vec::new();
    out.push(vec![true; d]);
    out.push(vec![false; d]);
    for i in 0..d {
        let mut p = vec![false; d];
        p[i] = true;
        out.push(p); // one-hot
        let mut q = vec![true; d];
        q[i] = false;
        out.push(q); // one-cold
        out.push((0..d).map(|j| j <= i).collect()); // prefix
    }
    for period in 2..=8 {
        out.push((0..d).map(|j| j % period == 0).collect());
        out.push((0..d).map(|j| j % period != 0).collect());
    }
    for w in 0..d.div_ceil(64) {
        for bit in [62usize, 63, 64, 65] {
            let j = w * 64 + bit;
            if j < d {
                let mut p: Vec<bool> = (0..d).map(|x| x % 2 == 0).collect();
                p[j] = !p[j];
                out.push(p);
            }
        }
    }
    out.sort();
    out.dedup();
    out
}

pub fn c12(tier: Tier) -> i32 {
    let mut report = Report::new("C12", tier, "exploration");
    let thorough = tier == Tier::Thorough;
    let full_to = if thorough { 20 } else { 16 };
    let pairs_to = if thorough { 10 } else { 8 };
    let evals = AtomicU64::new(0);
    let vectors = AtomicU64::new(0);
    let pairs = AtomicU64::new(0);
    let first: Mutex<Vec<Violation>> = Mutex::new(Vec::new());
    let push = |r: Result<(), Violation>| {
        if let Err(v) = r {
            first.lock().unwrap().push(v);
        }
    };
    // all sign patterns for small dimensions
    (1usize..=full_to).into_par_iter().for_each(|d| {
        for bits in 0u32..(1u32 << d) {
            if first.lock().unwrap().len() >= 6 {
                return;
            }
            let p: Vec<bool> = (0..d).map(|j| (bits >> j) & 1 == 1).collect();
            vectors.fetch_add(1, Ordering::Relaxed);
            push(bq_conversions(&p, &evals));
        }
    });
    // families beyond
    (full_to + 1..=300usize).into_par_iter().for_each(|d| {
        for p in family_patterns(d) {
            if first.lock().unwrap().len() >= 6 {
                return;
            }
            vectors.fetch_add(1, Ordering::Relaxed);
            push(bq_conversions(&p, &evals));
        }
    });
    // all pairs for d <= pairs_to, family x family beyond; strict ordering by h per dimension
    (1usize..=300).into_par_iter().for_each(|d| {
        let pats: Vec<Vec<bool>> = if d <= pairs_to {
            (0u32..(1u32 << d)).map(|bits| (0..d).map(|j| (bits >> j) & 1 == 1).collect()).collect()
        } else if d <= 64 || d % 16 == 1 || d % 64 == 0 || d == 300 {
            let f = family_patterns(d);
            let step = if thorough { 1 } else { (f.len() / 24).max(1) };
            f.into_iter().step_by(step).collect()
        } else {
            return;
        };
        // per metric: h -> distance must be a strictly increasing function
        let mut by_h: [std::collections::BTreeMap<u64, f32>; 3] = Default::default();
        for a in &pats {
            for b in &pats {
                if first.lock().unwrap().len() >= 6 {
                    return;
                }
                pairs.fetch_add(1, Ordering::Relaxed);
                match bq_pair(a, b, &evals) {
                    Ok((h, dist)) => {
                        for i in 0..3 {
                            let e = by_h[i].entry(h).or_insert(dist[i]);
                            if e.to_bits() != dist[i].to_bits() {
                                push(Err(Violation::new("Q/depends-on-more-than-h", format!("dimension {d}: two pairs with h = {h} have distances {e:e} and {:e}", dist[i]))));
                            }
                        }
                    }
                    Err(v) => push(Err(v)),
                }
            }
        }
        for (i, m) in by_h.iter().enumerate() {
            let v: Vec<(&u64, &f32)> = m.iter().collect();
            for w in v.windows(2) {
                if !(w[0].1 < w[1].1) {
                    push(Err(Violation::new(
                        format!("Q/order-by-h:{}", ["euclidean", "manhattan", "cosine"][i]),
                        format!("dimension {d}: h = {} gives {:e} but h = {} gives {:e}", w[0].0, w[0].1, w[1].0, w[1].1),
                    )));
                }
            }
        }
    });
    for v in first.into_inner().unwrap() {
        report.add_violation(v);
    }
    // end to end through Writer::add_item / item_vector / queries
    let mut e2e = 0u64;
    crate::explore::in_single_thread_pool(|| {
        for metric in [Metric::BqEuclidean, Metric::BqCosine, Metric::BqManhattan] {
            for d in [1usize, 7, 8, 9, 63, 64, 65, 128, 129, 300] {
                match bq_end_to_end(metric, d) {
                    Ok(n) => e2e += n,
                    Err(v) => report.add_violation(v),
                }
            }
        }
    });
    report.cov("evaluations", evals.load(Ordering::Relaxed));
    report.cov("distinct_nontrivial", vectors.load(Ordering::Relaxed) + pairs.load(Ordering::Relaxed));
    report.cov("vectors", vectors.load(Ordering::Relaxed));
    report.cov("pairs", pairs.load(Ordering::Relaxed));
    report.cov("end_to_end_observations", e2e);
    report.cov("exhaustive", true);
    report.cov("rule", format!("all 2^d sign patterns for d <= {full_to}, each rendered with two position->representation maps over (+0, 1, +inf, +NaN, subnormal | -0, -1, -inf, -NaN); for d up to 300 the families one-hot, one-cold, every prefix, period 2..8 and complements, all/none, patterns touching bits 62..65 of each word; conversions from_slice, from_vec, to_vec, iter, len; all pairs for d <= {pairs_to}, family x family beyond; every vector and every pair is a distinct case"));
    report.sample(json!({"dim": 5, "pattern": "+-+-+", "rendered": format!("{:?}", render(&[true, false, true, false, true], 0)), "readback": "[1,-1,1,-1,1] then -1 x59"}));
    report.assume("components are classified by their sign bit (so -0.0 and negative NaNs are negative), as the statement says");
    report.finish()
}

fn bq_end_to_end(metric: Metric, d: usize) -> Result<u64, Violation> {
    let s = Scratch::new("c12");
    let mut wtxn = s.env.write_txn().unwrap();
    let mut model = std::collections::BTreeMap::new();
    let mut n = 0u64;
    let pats: Vec<Vec<bool>> = family_patterns(d).into_iter().step_by((family_patterns(d).len() / 10).max(1)).take(10).collect();
    let r = catch(|| -> Result<(), (String, String)> {
        with_metric!(metric, D => {
            let w = arroy::Writer::<D>::new(arroy_db::<D>(s.db), 0, d);
            for (id, p) in pats.iter().enumerate() {
                let v = render(p, id % 2);
                w.add_item(&mut wtxn, id as u32, &v).map_err(|e| ("Q/e2e".to_string(), e.to_string()))?;
                let got = w.item_vector(&wtxn, id as u32).map_err(|e| ("Q/e2e".to_string(), e.to_string()))?.unwrap();
                let want: Vec<f32> = p.iter().map(|b| if *b { 1.0 } else { -1.0 }).collect();
                if got != want {
                    return Err(("Q/e2e-item-vector".into(), format!("dimension {d}: item_vector has {} components / differs from the sign pattern", got.len())));
                }
                model.insert(id as u32, crate::common::bits_of(&v));
                n += 1;
            }
            let mut rng = <rand::rngs::StdRng as rand::SeedableRng>::seed_from_u64(5);
            w.builder(&mut rng).n_trees(2).split_after(2).build(&mut wtxn).map_err(|e| ("Q/e2e".to_string(), e.to_string()))?;
            let reader = arroy::Reader::<D>::open(&wtxn, 0, arroy_db::<D>(s.db)).map_err(|e| ("Q/e2e".to_string(), e.to_string()))?;
            for p in &pats {
                let q = crate::common::bits_of(&render(p, 1));
                let res = crate::hist::query::<D>(&reader, &wtxn, None, Some(&floats_of(&q)), pats.len(), Some(usize::MAX), None, None)
                    .map_err(|e| ("Q/e2e".to_string(), e))?
                    .unwrap();
                n += 1;
                crate::oracle::check_result(metric, d, &model, &q, pats.len(), None, &res, crate::oracle::Exactness::Exact, true)
                    .map_err(|(c, m)| (format!("Q/e2e-{c}"), format!("dimension {d}: {m}")))?;
            }
            Ok(())
        })
    });
    match r {
        Ok(Ok(())) => Ok(n),
        Ok(Err((c, m))) => Err(Violation { signature: format!("{c}:{}", metric.short()), what: m, replay: json!({"engine": "bq", "metric": metric.short(), "dim": d, "end_to_end": true}) }),
        Err(p) => Err(Violation { signature: format!("Q/e2e-panicked:{}", p.site()), what: p.message, replay: json!({"engine": "bq", "metric": metric.short(), "dim": d, "end_to_end": true}) }),
    }
}
