//! C02, C04, C15 — properties decided on the built states of the history exploration (E1)
//! with their own observers and bounds.

use std::time::Duration;

use crate::common::{Metric, Report, Tier, M7};
use crate::explore::Caps;
use crate::hist::{HistCfg, Observers};
use crate::props::c01::{build_menu, cfg};

fn caps(tier: Tier, secs_quick: u64, secs_thorough: u64) -> Caps {
    match tier {
        Tier::Quick => Caps {
            max_transitions: 2_000_000,
            max_wall: Duration::from_secs(secs_quick),
            max_signatures: 10,
        },
        Tier::Thorough => Caps {
            max_transitions: 60_000_000,
            max_wall: Duration::from_secs(secs_thorough),
            max_signatures: 10,
        },
    }
}

fn only_metric(ms: &[Metric]) -> Vec<Metric> {
    match std::env::var("VERIF_ONLY_METRIC").ok().and_then(|s| Metric::from_short(&s)) {
        Some(m) => vec![m],
        None => ms.to_vec(),
    }
}

// ------------------------------------------------------------------------------------------

pub fn c02_runs(tier: Tier) -> Vec<(HistCfg, Caps)> {
    let obs = Observers { exact_search: true, ..Default::default() };
    let mut runs = Vec::new();
    match tier {
        Tier::Quick => {
            let b = build_menu(&[None, Some(2)], &[None, Some(1)], 1);
            for m in only_metric(&M7) {
                runs.push((
                    cfg(m, 2, 4, b.clone(), vec![4, 2], obs.clone(), &format!("{}-d2", m.short())),
                    caps(tier, 8, 0),
                ));
                if !m.is_bq() {
                    // a dimension that reaches the SIMD kernels with one 8-lane group left over
                    // (32 + 8): end-to-end distances over a kernel remainder path
                    runs.push((
                        cfg(m, 40, 4, build_menu(&[Some(2)], &[Some(1)], 1), vec![4, 0], obs.clone(), &format!("{}-d40", m.short())),
                        caps(tier, 8, 0),
                    ));
                }
                if m.is_bq() {
                    // real (non-degenerate) quantised planes, with and without padding bits
                    for d in [64usize, 60] {
                        runs.push((
                            cfg(m, d, 4, b.clone(), vec![4, 1], obs.clone(), &format!("{}-d{d}", m.short())),
                            caps(tier, 8, 0),
                        ));
                    }
                }
            }
        }
        Tier::Thorough => {
            let b = build_menu(&[None, Some(1), Some(3)], &[None, Some(1), Some(2)], 2);
            for m in only_metric(&M7) {
                for d in [1usize, 2, 3] {
                    runs.push((
                        cfg(m, d, 5, b.clone(), vec![5, 2], obs.clone(), &format!("{}-d{d}", m.short())),
                        caps(tier, 0, 90),
                    ));
                }
                let bw = build_menu(&[Some(2)], &[Some(1), Some(2)], 1);
                for d in [17usize, 33, 40, 65, 72] {
                    runs.push((
                        cfg(m, d, 5, bw.clone(), vec![5, 1], obs.clone(), &format!("{}-d{d}-wide", m.short())),
                        caps(tier, 0, 30),
                    ));
                }
            }
        }
    }
    runs
}

pub fn c02(tier: Tier) -> i32 {
    let mut report = Report::new("C02", tier, "model_checking");
    report.assume("LMDB/heed, roaring, rayon; lattice coordinates in -2..2 (distance accuracy over other values is C11's subject)");
    report.assume("states whose forest is invalid are C01's findings and are not judged here (counter skipped_invalid_forest)");
    crate::props::run_hist_runs(&mut report, "C02", &c02_runs(tier));
    // C01's histories include any available_memory: bulk scenarios under a memory hint, judged by exact search
    crate::props::bulk_props::run_into(&mut report, "C02", crate::props::bulk_props::c01_memory_scenarios(tier), if tier == Tier::Quick { 20 } else { 300 }, true);
    report.cov("oracle", "for every built state: by_item for every stored id and by_vector for every lattice vector (stored or not), count in {0,1,2,n-1,n,n+1,usize::MAX}, search_k = usize::MAX, judged against an f64 brute force over the reference model (length, distinctness, stored, reported distance within tolerance, order, no omitted item closer than a returned one)");
    report.finish()
}

// ------------------------------------------------------------------------------------------

/// Binary-quantised margins are `padded_dim - 2 * hamming`: below 33 dimensions they are
/// always positive, every item goes right, every split degenerates into a random one and the
/// routing clause would be vacuous. The quantised metrics are therefore explored at 64
/// dimensions (no padding) and 60 (4 padding bits).
fn c04_dims(m: Metric) -> Vec<usize> {
    if m.is_bq() {
        vec![64, 60]
    } else {
        vec![2]
    }
}

pub fn c04_runs(tier: Tier) -> Vec<(HistCfg, Caps)> {
    let obs = Observers { routing: true, ..Default::default() };
    let mut runs = Vec::new();
    match tier {
        Tier::Quick => {
            let b = build_menu(&[Some(1), Some(2)], &[None, Some(1)], 1);
            let bq = build_menu(&[Some(1), Some(2)], &[Some(1)], 1);
            for m in only_metric(&M7) {
                for d in c04_dims(m) {
                    let menu = if m.is_bq() { bq.clone() } else { b.clone() };
                    runs.push((
                        cfg(m, d, 5, menu.clone(), vec![5, 1], obs.clone(), &format!("{}-d{d}", m.short())),
                        caps(tier, 8, 0),
                    ));
                    if !m.is_bq() {
                        runs.push((
                            cfg(m, d, 4, menu, vec![4, 2], obs.clone(), &format!("{}-d{d}-two-updates", m.short())),
                            caps(tier, 8, 0),
                        ));
                    } else if d == 64 {
                        // more seeds and two incremental operations: planes of every shape (also the
                        // balanced ones, whose quantised Manhattan norm vanishes) get items inserted below them
                        let seeds = build_menu(&[Some(2)], &[Some(1)], 4);
                        runs.push((
                            cfg(m, d, 5, seeds, vec![5, 2], obs.clone(), &format!("{}-d{d}-two-updates-4-seeds", m.short())),
                            caps(tier, 10, 0),
                        ));
                    }
                }
            }
        }
        Tier::Thorough => {
            let b = build_menu(&[None, Some(1), Some(3)], &[None, Some(1), Some(2)], 2);
            for m in only_metric(&M7) {
                let dims: Vec<usize> = if m.is_bq() { vec![64, 60, 100] } else { vec![2, 3] };
                for d in dims {
                    runs.push((
                        cfg(m, d, 6, b.clone(), vec![6, 2], obs.clone(), &format!("{}-d{d}", m.short())),
                        caps(tier, 0, 90),
                    ));
                }
                let small = build_menu(&[Some(2)], &[Some(1), Some(2)], 1);
                let d3 = if m.is_bq() { 64 } else { 2 };
                runs.push((
                    cfg(m, d3, 5, small.clone(), vec![5, 1, 1], obs.clone(), &format!("{}-d{d3}-R3", m.short())),
                    caps(tier, 0, 60),
                ));
                for d in [17usize, 65, 130] {
                    runs.push((
                        cfg(m, d, 5, small.clone(), vec![5, 1], obs.clone(), &format!("{}-d{d}-wide", m.short())),
                        caps(tier, 0, 30),
                    ));
                }
            }
        }
    }
    runs
}

pub fn c04(tier: Tier) -> i32 {
    let mut report = Report::new("C04", tier, "model_checking");
    report.assume("LMDB/heed, roaring, rayon; a margin is judged only when its sign is certain under any f32 summation order");
    crate::props::run_hist_runs(&mut report, "C04", &c04_runs(tier));
    c04_bulk(&mut report, tier);
    // vacuity guard: every run must have judged planes (a run whose splits are all degenerate decides nothing)
    let vacuous: Vec<String> = report.coverage.get("runs").and_then(|r| r.as_array()).map(|runs| {
        runs.iter().filter(|r| r["counters"]["planes_judged"].as_u64().unwrap_or(0) == 0 && !r["run"].as_str().unwrap_or("").contains("wide")).map(|r| r["run"].as_str().unwrap_or("").to_string()).collect()
    }).unwrap_or_default();
    if !vacuous.is_empty() && report.violations.is_empty() {
        report.machinery_error(format!("vacuous exploration: no non-degenerate plane was judged in runs {vacuous:?}"));
    }
    report.cov("oracle", "for every built state, every tree, every split, every stored item below it: margin recomputed in f64 from the decoded normal and leaf; a non-degenerate plane with a certain margin must have the item on the side of the margin's sign; an item separated by such planes only in some tree must be returned by nns(n).search_k(1).oversampling(1).by_item(id)");
    report.finish()
}

/// The routing clauses on datasets the small universes cannot produce: nodes of 20 and more
/// items whose split attempts are all unbalanced (a cloud far from the origin: planes through the
/// origin cannot cut it evenly, so the retry loop of the split runs to its end), followed by an
/// incremental round; and coordinates at the end of the f32 range whose margins overflow.
fn c04_bulk(report: &mut Report, tier: Tier) {
    use crate::common::{arroy_db, bits_of, catch, floats_of, Scratch, Violation};
    use crate::layout::decode_index;
    use std::collections::BTreeMap;
    let mut lcg: u64 = 0x2545_F491_4F6C_DD1D ^ crate::common::verif_seed();
    let mut unif = move || {
        lcg = lcg.wrapping_mul(6364136223846793005).wrapping_add(1442695040888963407);
        ((lcg >> 40) as f64) / ((1u64 << 24) as f64)
    };
    // sum of 4 uniforms, centred: roughly bell-shaped, unit-ish variance
    let mut bell = move || (unif() + unif() + unif() + unif() - 2.0) * 1.7;
    let mut datasets: Vec<(String, Metric, usize, Vec<Vec<f32>>, Vec<Vec<f32>>)> = Vec::new();
    let metrics: Vec<Metric> = if tier == Tier::Quick { vec![Metric::Euclidean, Metric::Cosine] } else { vec![Metric::Euclidean, Metric::Manhattan, Metric::Cosine, Metric::DotProduct] };
    for m in metrics {
        for (d, n, off) in [(8usize, 300usize, 7.0f64), (3, 120, 12.0)] {
            let first: Vec<Vec<f32>> = (0..n).map(|_| (0..d).map(|_| (off + bell()) as f32).collect()).collect();
            let second: Vec<Vec<f32>> = (0..n / 3).map(|_| (0..d).map(|_| (off + bell()) as f32).collect()).collect();
            datasets.push((format!("off-centre-cloud-{}-d{d}-n{n}", m.short()), m, d, first, second));
        }
    }
    // finite coordinates around 0.9 x f32::MAX, all of one sign per vector: normal . vector overflows to +-inf
    {
        let d = 4usize;
        let big = f32::MAX * 0.9;
        let mut first: Vec<Vec<f32>> = (0..60).map(|i| (0..d).map(|j| (((i * 7 + j * 3) % 11) as f32 - 5.0) + if j == 0 { 0.5 } else { 0.0 }).collect()).collect();
        // few and opposite: several enormous vectors in one node overflow the centroids of the split
        // construction itself (inf / inf: a NaN normal, against which no margin is defined)
        for k in 0..2 {
            let sign = if k % 2 == 0 { 1.0 } else { -1.0 };
            first.push((0..d).map(|j| sign * big * (1.0 - 0.01 * ((k + j) % 5) as f32)).collect());
        }
        let second: Vec<Vec<f32>> = (0..2).map(|k| (0..d).map(|j| if k % 2 == 0 { -1.0 } else { 1.0 } * big * (1.0 - 0.013 * ((k + 2 * j) % 4) as f32)).collect()).collect();
        datasets.push(("huge-one-sign-euclidean-d4".to_string(), Metric::Euclidean, d, first, second));
    }
    // two dimensions, enormous vectors near the diagonal: against a unit normal within ~38 degrees of the
    // diagonal both terms of the margin have one sign and their sum overflows to that sign's infinity in any
    // order (a certain verdict); against every other normal nothing overflows. The items are therefore judged
    // under nearly every plane, and the budget-1 self lookups follow margins that are infinite (C04-h)
    {
        let d = 2usize;
        let big = f32::MAX * 0.9;
        let mut first: Vec<Vec<f32>> = (0..40).map(|i| { let th = i as f32 * 0.37; let r = 1.0 + (i % 5) as f32; vec![r * th.cos(), r * th.sin()] }).collect();
        first.push(vec![big, big * 0.97]);
        first.push(vec![-big * 0.98, -big]);
        let second: Vec<Vec<f32>> = vec![vec![big * 0.95, big], vec![-big, -big * 0.96], vec![0.3, -2.5], vec![-1.5, 0.4]];
        datasets.push(("huge-diagonal-euclidean-d2".to_string(), Metric::Euclidean, d, first, second));
    }
    // many enormous vectors in one node: the centroids of the split construction overflow (x * c + x, p - q)
    {
        let d = 4usize;
        let big = f32::MAX * 0.9;
        let mut first: Vec<Vec<f32>> = (0..30).map(|i| (0..d).map(|j| (((i * 7 + j * 3) % 11) as f32 - 5.0) + if j == 0 { 0.5 } else { 0.0 }).collect()).collect();
        for k in 0..30usize {
            first.push((0..d).map(|j| if (k >> j) & 1 == 0 { 1.0 } else { -1.0 } * big * (1.0 - 0.003 * ((k + j) % 7) as f32)).collect());
        }
        let second: Vec<Vec<f32>> = (0..10usize).map(|k| (0..d).map(|j| if (k >> j) & 1 == 1 { 1.0 } else { -1.0 } * big * (1.0 - 0.004 * ((k + 2 * j) % 5) as f32)).collect()).collect();
        datasets.push(("huge-many-euclidean-d4".to_string(), Metric::Euclidean, d, first.clone(), second.clone()));
        datasets.push(("huge-many-manhattan-d4".to_string(), Metric::Manhattan, d, first, second));
    }
    let mut judged_total = 0u64;
    let mut lookups_total = 0u64;
    let mut builds = 0u64;
    crate::explore::in_single_thread_pool(|| {
        for (label, metric, d, first, second) in &datasets {
            // the enormous-vector dataset is small: it is built under eight seeds (whether a split draws two
            // enormous centroids, and overflows, depends on the seed)
            let seeds: u64 = if label.starts_with("huge") { 8 } else { 1 };
            for (n_trees, seed_k) in [1usize, 3].into_iter().flat_map(|t| (0..seeds).map(move |k| (t, k))) {
                let s = Scratch::with_map_size("c04b", 1 << 28);
                let r = catch(|| -> Result<(u64, u64), (String, String)> {
                    crate::with_metric!(*metric, D => {
                        let mut judged = 0u64;
                        let mut lookups = 0u64;
                        let mut wtxn = s.env.write_txn().unwrap();
                        let w = arroy::Writer::<D>::new(arroy_db::<D>(s.db), 0, *d);
                        let mut model: BTreeMap<u32, Vec<u32>> = BTreeMap::new();
                        for (round, items) in [first, second].into_iter().enumerate() {
                            for (i, v) in items.iter().enumerate() {
                                let id = (round * 10_000 + i) as u32;
                                w.add_item(&mut wtxn, id, v).map_err(|e| ("R/bulk-add".to_string(), e.to_string()))?;
                                model.insert(id, bits_of(v));
                            }
                            if round == 1 {
                                // overwrite and delete a few of the first round
                                for i in (0..first.len()).step_by(17) {
                                    w.del_item(&mut wtxn, i as u32).map_err(|e| ("R/bulk-del".to_string(), e.to_string()))?;
                                    model.remove(&(i as u32));
                                }
                            }
                            let mut rng = <rand::rngs::StdRng as rand::SeedableRng>::seed_from_u64(crate::common::verif_seed() + round as u64 + 1000 * seed_k);
                            {
                                let mut b = w.builder(&mut rng);
                                b.n_trees(n_trees);
                                // shallow trees for the diagonal dataset: the nodes stay large, so an enormous item is rarely
                                // drawn as a centroid (which zeroes the normal) and most planes above it are proper ones
                                if label.contains("diagonal") {
                                    b.split_after(24);
                                }
                                b.build(&mut wtxn).map_err(|e| ("R/bulk-build".to_string(), e.to_string()))?;
                            }
                            let kv = s.dump(&wtxn);
                            let ix = decode_index(&kv, 0, *metric, *d).map_err(|e| ("F/undecodable".to_string(), e))?;
                            crate::oracle::structure(&ix, &model.keys().copied().collect(), *metric, *d)?;
                            let (stats, clean) = crate::oracle::routing(&ix, *metric)?;
                            judged += stats.planes_judged;
                            let reader = arroy::Reader::<D>::open(&wtxn, 0, arroy_db::<D>(s.db)).map_err(|e| ("R/open-failed".to_string(), e.to_string()))?;
                            let n = model.len();
                            if std::env::var("VERIF_DEBUG_C04").is_ok() {
                                let huge: Vec<u32> = model.iter().filter(|(_, v)| v.iter().any(|b| f32::from_bits(*b).abs() > 1e30)).map(|(id, _)| *id).collect();
                                let nonfinite = ix.trees.values().filter(|t| matches!(t, crate::layout::TreeNode::Split { normal, .. } if normal.chunks(4).any(|c| !f32::from_le_bytes([c[0], c[1], c[2], c[3]]).is_finite()))).count();
                                eprintln!("{label} trees={n_trees} round={round}: split normals with a non-finite component: {nonfinite}");
                                eprintln!("{label} trees={n_trees} round={round}: huge items {huge:?}, clean among them {:?}, planes judged {} degenerate {} uncertain {}", huge.iter().filter(|i| clean.contains(i)).collect::<Vec<_>>(), stats.planes_judged, stats.planes_degenerate, stats.margins_zero_or_uncertain);
                            }
                            for id in clean.iter() {
                                let res = crate::hist::query::<D>(&reader, &wtxn, Some(*id), None, n, Some(1), Some(1), None).map_err(|e| ("R/query-failed".to_string(), e))?.unwrap_or_default();
                                lookups += 1;
                                if !res.iter().any(|(i, _)| i == id) {
                                    return Err(("R/self-lookup-missed".into(), format!("round {round}: item {id} is separated by non-degenerate planes in some tree but nns({n}).search_k(1).by_item({id}) does not return it ({} results)", res.len())));
                                }
                                // and by its own vector
                                let res = crate::hist::query::<D>(&reader, &wtxn, None, Some(&floats_of(&model[id])), n, Some(1), Some(1), None).map_err(|e| ("R/query-failed".to_string(), e))?.unwrap_or_default();
                                lookups += 1;
                                if !res.iter().any(|(i, _)| i == id) {
                                    return Err(("R/self-lookup-missed".into(), format!("round {round}: item {id} is separated by non-degenerate planes in some tree but nns({n}).search_k(1).by_vector(its own vector) does not return it ({} results)", res.len())));
                                }
                            }
                        }
                        Ok((judged, lookups))
                    })
                });
                builds += 2;
                match r {
                    Ok(Ok((j, l))) => {
                        judged_total += j;
                        lookups_total += l;
                        if j == 0 {
                            report.machinery_error(format!("vacuous bulk run {label} ({n_trees} trees): no plane judged"));
                        }
                    }
                    Ok(Err((c, m))) => {
                        report.add_violation(Violation::new(c, format!("{label}, {n_trees} trees: {m}")));
                        return;
                    }
                    Err(p) => {
                        report.add_violation(Violation::new(format!("R/bulk-panicked:{}", p.site()), format!("{label}, {n_trees} trees: {} {}", p.location, p.message)));
                        return;
                    }
                }
            }
        }
    });
    report.cov_add("states", builds);
    report.cov_add("transitions", builds);
    report.cov_add("traces_validated_against_impl", builds);
    report.cov("bulk_planes_judged", judged_total);
    report.cov("bulk_self_lookups", lookups_total);
}

// ------------------------------------------------------------------------------------------

pub fn c15_runs(tier: Tier) -> Vec<(HistCfg, Caps)> {
    let obs = Observers { options: true, ..Default::default() };
    let mut runs = Vec::new();
    match tier {
        Tier::Quick => {
            let b = build_menu(&[None, Some(1), Some(3)], &[None], 1);
            let b2 = build_menu(&[None, Some(1), Some(3)], &[Some(2)], 1);
            for (m, d) in [(Metric::Euclidean, 1usize), (Metric::Cosine, 2), (Metric::BqManhattan, 1), (Metric::Manhattan, 3)] {
                if !only_metric(&M7).contains(&m) {
                    continue;
                }
                runs.push((
                    cfg(m, d, 5, b.clone(), vec![5, 2], obs.clone(), &format!("{}-d{d}-cap-default", m.short())),
                    caps(tier, 8, 0),
                ));
                runs.push((
                    cfg(m, d, 5, b2.clone(), vec![5, 1], obs.clone(), &format!("{}-d{d}-cap2", m.short())),
                    caps(tier, 6, 0),
                ));
            }
            // many trees and small changes of the requested count (7 <-> 6, 10 <-> 9)
            let many = build_menu(&[Some(7), Some(6)], &[Some(1)], 1);
            runs.push((cfg(Metric::Euclidean, 2, 4, many, vec![4, 1, 0], obs.clone(), "euclidean-d2-trees-7-6"), caps(tier, 8, 0)));
            let many = build_menu(&[Some(10), Some(9), Some(12)], &[Some(1)], 1);
            runs.push((cfg(Metric::BqEuclidean, 2, 3, many, vec![3, 0, 0], obs.clone(), "bq-euclidean-d2-trees-10-9-12"), caps(tier, 8, 0)));
        }
        Tier::Thorough => {
            for m in only_metric(&M7) {
                for d in [1usize, 2, 3] {
                    for cap in [None, Some(1), Some(2), Some(4)] {
                        let b = build_menu(&[None, Some(1), Some(2), Some(5)], &[cap], 2);
                        runs.push((
                            cfg(m, d, 6, b, vec![6, 2], obs.clone(), &format!("{}-d{d}-cap{:?}", m.short(), cap)),
                            caps(tier, 0, 20),
                        ));
                    }
                    // many trees, small growth and shrink of the requested count
                    let b = build_menu(&[Some(7), Some(6), Some(20), Some(17)], &[Some(1)], 1);
                    runs.push((
                        cfg(m, d, 4, b, vec![4, 1, 0], obs.clone(), &format!("{}-d{d}-many-trees", m.short())),
                        caps(tier, 0, 20),
                    ));
                    // mixed capacities (the bucket bound is then not judged) with three rounds
                    let b = build_menu(&[None, Some(1), Some(3)], &[None, Some(1)], 1);
                    runs.push((
                        cfg(m, d, 5, b, vec![5, 1, 1], obs.clone(), &format!("{}-d{d}-R3", m.short())),
                        caps(tier, 0, 20),
                    ));
                }
            }
        }
    }
    runs
}

pub fn c15(tier: Tier) -> i32 {
    let mut report = Report::new("C15", tier, "model_checking");
    report.assume("LMDB/heed, roaring, rayon");
    crate::props::run_hist_runs(&mut report, "C15", &c15_runs(tier));
    c15_large_dimensions(&mut report, tier);
    // the capacity clause under a memory hint (several insertion batches, left-over items poured into fresh sub-trees)
    crate::props::bulk_props::run_into(&mut report, "C15", crate::props::bulk_props::c01_memory_scenarios(tier), if tier == Tier::Quick { 20 } else { 300 }, true);
    report.cov("oracle", "after every successful build (every transition, not only new states): items > capacity => n_trees() = requested, or >= 1 when automatic; 0 < items <= capacity => exactly 1; empty => 0; nns(1) with the default budget is non-empty on a non-empty index; if every build of the history used the same capacity no decoded bucket exceeds it; the default capacity is the dimension also for dimensions around and above 1024 (item counts dimension-1, dimension, dimension+1)");
    report.finish()
}

/// "By default the dimension", for all dimensions >= 1: the capacity boundary at dimensions around
/// and above a page worth of ids (1024), which the small universes cannot reach. Items are sparse
/// vectors (one non-zero coordinate each), counts dimension-1, dimension and dimension+1.
fn c15_large_dimensions(report: &mut Report, tier: Tier) {
    use crate::common::{arroy_db, catch, Scratch, Violation};
    let dims: Vec<usize> = if tier == Tier::Quick { vec![1023, 1100] } else { vec![257, 1023, 1024, 1025, 1100, 2050] };
    let mut builds = 0u64;
    crate::explore::in_single_thread_pool(|| {
        for d in &dims {
            for metric in [Metric::Euclidean, Metric::BqCosine] {
                let s = Scratch::with_map_size("c15d", 1 << 30);
                let r = catch(|| -> Result<u64, (String, String)> {
                    crate::with_metric!(metric, D => {
                        let mut n_builds = 0u64;
                        let mut wtxn = s.env.write_txn().unwrap();
                        let w = arroy::Writer::<D>::new(arroy_db::<D>(s.db), 0, *d);
                        let mut v = vec![0.0f32; *d];
                        let mut stored = 0usize;
                        for target in [*d - 1, *d, *d + 1] {
                            while stored < target {
                                v[stored % *d] = if stored % 2 == 0 { 1.0 + (stored % 7) as f32 } else { -1.0 - (stored % 5) as f32 };
                                w.add_item(&mut wtxn, stored as u32, &v).map_err(|e| ("O/large-dim-add".to_string(), e.to_string()))?;
                                v[stored % *d] = 0.0;
                                stored += 1;
                            }
                            let mut rng = <rand::rngs::StdRng as rand::SeedableRng>::seed_from_u64(crate::common::verif_seed());
                            w.builder(&mut rng).n_trees(3).build(&mut wtxn).map_err(|e| ("O/large-dim-build".to_string(), e.to_string()))?;
                            n_builds += 1;
                            let reader = arroy::Reader::<D>::open(&wtxn, 0, arroy_db::<D>(s.db)).map_err(|e| ("O/open-failed".to_string(), e.to_string()))?;
                            let want = if stored <= *d { 1 } else { 3 };
                            if reader.n_trees() != want {
                                return Err(("O/tree-count".into(), format!("dimension {d} (capacity by default = the dimension), {stored} items, 3 trees requested: n_trees() = {}, expected {want}", reader.n_trees())));
                            }
                            let res = reader.nns(1).by_item(&wtxn, 0).map_err(|e| ("O/search-failed".to_string(), e.to_string()))?;
                            if res.map_or(true, |r| r.is_empty()) {
                                return Err(("O/empty-search".into(), format!("dimension {d}, {stored} items: nns(1) returned nothing")));
                            }
                        }
                        Ok(n_builds)
                    })
                });
                match r {
                    Ok(Ok(n)) => builds += n,
                    Ok(Err((c, m))) => {
                        report.add_violation(Violation::new(c, format!("{}: {m}", metric.short())));
                        return;
                    }
                    Err(p) => {
                        report.add_violation(Violation::new(format!("O/large-dim-panicked:{}", p.site()), format!("{} dimension {d}: {} {}", metric.short(), p.location, p.message)));
                        return;
                    }
                }
            }
        }
    });
    report.cov_add("states", builds);
    report.cov_add("transitions", builds);
    report.cov_add("traces_validated_against_impl", builds);
    report.cov("large_dimension_builds", builds);
}

// ------------------------------------------------------------------------------------------

pub fn c03_runs(tier: Tier) -> Vec<(HistCfg, Caps)> {
    let obs = Observers { lattice: true, ..Default::default() };
    let mut runs = Vec::new();
    match tier {
        Tier::Quick => {
            let b = build_menu(&[None, Some(2)], &[Some(1)], 1);
            // buckets of up to 2 / 3 items: a budget can overshoot inside a bucket
            let wide = build_menu(&[Some(2)], &[None, Some(3)], 1);
            for m in only_metric(&M7) {
                runs.push((
                    cfg(m, 2, 4, b.clone(), vec![4, 1], obs.clone(), &format!("{}-d2", m.short())),
                    caps(tier, 7, 0),
                ));
                runs.push((
                    cfg(m, 2, 5, wide.clone(), vec![5, 0], obs.clone(), &format!("{}-d2-buckets", m.short())),
                    caps(tier, 7, 0),
                ));
                if m == Metric::Euclidean || m == Metric::Cosine {
                    // 32 + 8 dimensions: true distances over a SIMD kernel remainder path
                    runs.push((
                        cfg(m, 40, 4, wide.clone(), vec![4, 0], obs.clone(), &format!("{}-d40-buckets", m.short())),
                        caps(tier, 7, 0),
                    ));
                }
                if m == Metric::BqCosine || m == Metric::BqEuclidean {
                    // budget-limited search over real quantised planes
                    runs.push((
                        cfg(m, 64, 5, wide.clone(), vec![5, 0], obs.clone(), &format!("{}-d64-buckets", m.short())),
                        caps(tier, 7, 0),
                    ));
                }
            }
        }
        Tier::Thorough => {
            let b = build_menu(&[None, Some(1), Some(3)], &[None, Some(1)], 1);
            for m in only_metric(&M7) {
                for d in [1usize, 2, 3] {
                    runs.push((
                        cfg(m, d, 5, b.clone(), vec![5, 1], obs.clone(), &format!("{}-d{d}", m.short())),
                        caps(tier, 0, 80),
                    ));
                }
                if !m.is_bq() {
                    for d in [40usize, 72] {
                        runs.push((
                            cfg(m, d, 4, b.clone(), vec![4, 0], obs.clone(), &format!("{}-d{d}", m.short())),
                            caps(tier, 0, 30),
                        ));
                    }
                }
            }
        }
    }
    runs
}

pub fn c03(tier: Tier) -> i32 {
    let mut report = Report::new("C03", tier, "model_checking");
    report.assume("LMDB/heed, roaring, rayon; lattice coordinates in -2..2");
    report.assume("states whose forest is invalid are C01's findings and are not judged here");
    crate::props::run_hist_runs(&mut report, "C03", &c03_runs(tier));
    report.cov("oracle", "per built state the full product count x search_k x oversampling x candidates x query on one read transaction: every cell well-formed against the f64 model (<= count, distinct, stored, inside the filter, ordered, true distances); cells with the same documented budget (count x trees x default oversampling when unset, saturating) answer identically; along increasing budgets the list never shortens and no rank gets farther; a saturated budget equals exact search restricted to the filter; by_item(i) = by_vector(vector(i)); unknown id => Ok(None)");
    report.finish()
}
