//! E1 — explicit-state breadth-first exploration whose transition function is the real code.
//!
//! States are deduplicated on a 128-bit hash of their exact content (raw key/value dump +
//! reference model + phase counters).
//!
//! Parallelism: the coordinator is single-threaded and owns the seen-set, the node table and
//! the frontier. For every layer it `fork()`s up to 16 workers; worker `j` executes the jobs
//! `i % workers == j` of the layer on its private LMDB environment (inside a private 1-thread
//! rayon pool, so builds are deterministic), appends one record per finished job to its
//! result file and `_exit`s. The coordinator merges the records in job order, so the search
//! is deterministic. (Threads do not scale here: every build creates and maps temporary
//! files, which serialises on the process-wide address-space lock.)
//!
//! A worker that dies (abort, stack overflow, kill) leaves its file short by one record: the
//! first job without a record is the transition that crashed, and it is reported with its
//! full history — this is the journal of DESIGN.md §1.

use std::collections::{BTreeMap, HashSet};
use std::io::Write;
use std::time::{Duration, Instant};

use serde_json::{json, Value};

use crate::common::{fresh_scratch_dir, n_workers, Dec, Enc, Report, Scratch, Violation};

pub struct Worker {
    pub scratch: Scratch,
    pub counters: BTreeMap<&'static str, u64>,
    pub samples: Vec<Value>,
}

impl Worker {
    pub fn new(tag: &str) -> Worker {
        Worker { scratch: Scratch::new(tag), counters: BTreeMap::new(), samples: Vec::new() }
    }
    pub fn count(&mut self, key: &'static str, n: u64) {
        *self.counters.entry(key).or_insert(0) += n;
    }
    /// keys starting with `max_` are merged with max instead of sum
    pub fn max(&mut self, key: &'static str, n: u64) {
        let e = self.counters.entry(key).or_insert(0);
        *e = (*e).max(n);
    }
}

pub struct Step<S> {
    /// the successor, if the transition is to be followed
    pub next: Option<S>,
    pub violations: Vec<Violation>,
}

impl<S> Step<S> {
    pub fn none() -> Step<S> {
        Step { next: None, violations: Vec::new() }
    }
}

/// Set of claimed state keys. In a forked worker this is a copy-on-write snapshot taken at
/// the start of the layer plus what this worker found itself.
pub struct Seen {
    set: std::cell::RefCell<HashSet<u128>>,
}

impl Seen {
    pub fn new() -> Seen {
        Seen { set: std::cell::RefCell::new(HashSet::new()) }
    }
    /// true if the key was not present (the caller now owns the state)
    pub fn claim(&self, key: u128) -> bool {
        self.set.borrow_mut().insert(key)
    }
    pub fn len(&self) -> usize {
        self.set.borrow().len()
    }
}

pub trait System {
    type State;
    type Action: Clone;

    fn name(&self) -> &'static str;
    fn config_json(&self) -> Value;
    fn initial(&self) -> Vec<Self::State>;
    fn key(&self, s: &Self::State) -> u128;
    /// Enabled actions, simplest first.
    fn actions(&self, s: &Self::State) -> Vec<Self::Action>;
    /// One transition on the real implementation. `seen.claim(key)` tells whether the
    /// successor is new; oracles that are a function of the state only need to run then.
    fn step(&self, w: &mut Worker, s: &Self::State, a: &Self::Action, seen: &Seen)
        -> Step<Self::State>;
    fn action_json(&self, a: &Self::Action) -> Value;
    fn encode_state(&self, s: &Self::State, e: &mut Enc);
    fn decode_state(&self, d: &mut Dec) -> Self::State;
    /// Job systems whose single layer holds independent scenarios stop the layer at the first
    /// violation (the remaining jobs are reported as not run) instead of paying for every one.
    fn stop_layer_on_violation(&self) -> bool {
        false
    }
}

#[derive(Clone, Debug)]
pub struct Caps {
    pub max_transitions: u64,
    pub max_wall: Duration,
    /// stop expanding after this many distinct violation signatures
    pub max_signatures: usize,
}

#[derive(Debug, Default, Clone)]
pub struct Outcome {
    pub states: u64,
    pub transitions: u64,
    pub layers: Vec<u64>,
    pub cap_hit: Option<String>,
    pub completed_depth: usize,
    pub counters: BTreeMap<String, u64>,
    pub samples: Vec<Value>,
    pub violations: Vec<Violation>,
    pub machinery_errors: Vec<String>,
}

struct Job<'a, S, A> {
    node: u32,
    state: &'a S,
    action: A,
}

struct Record {
    job: usize,
    next: Option<(u128, Vec<u8>)>,
    violations: Vec<Violation>,
}

fn merge_counter(into: &mut BTreeMap<String, u64>, k: &str, v: u64) {
    if k.starts_with("max_") {
        let e = into.entry(k.to_string()).or_insert(0);
        *e = (*e).max(v);
    } else {
        *into.entry(k.to_string()).or_insert(0) += v;
    }
}

/// Body of a forked worker: never returns.
/// Liveness ticks of this process: one per finished job and one per cancel poll of a build.
pub static TICKS: std::sync::atomic::AtomicU64 = std::sync::atomic::AtomicU64::new(0);

pub fn tick() {
    TICKS.fetch_add(1, std::sync::atomic::Ordering::Relaxed);
}

/// CPU seconds a worker may burn without a tick before it is declared non-terminating.
pub const STALL_CPU_SECS: f64 = 90.0;
/// Wall seconds a worker may sit without a tick while using no CPU at all before it is declared blocked.
pub const BLOCKED_WALL_SECS: f64 = 600.0;
pub const EXIT_STALLED: i32 = 97;
pub const EXIT_BLOCKED: i32 = 98;

fn process_cpu_secs() -> f64 {
    let mut ts = libc::timespec { tv_sec: 0, tv_nsec: 0 };
    unsafe { libc::clock_gettime(libc::CLOCK_PROCESS_CPUTIME_ID, &mut ts) };
    ts.tv_sec as f64 + ts.tv_nsec as f64 * 1e-9
}

/// The watchdog of a worker process. A job that neither finishes nor polls its cancel callback
/// cannot be stopped by the poll horizon, so it is judged on the CPU time it consumes (which does
/// not depend on how loaded the machine is): `STALL_CPU_SECS` of CPU without a tick ends the
/// process with `EXIT_STALLED`, and the coordinator reports the job it was executing. A job that
/// sits without using any CPU (a deadlock) ends it with `EXIT_BLOCKED` after `BLOCKED_WALL_SECS`.
fn spawn_watchdog(stop_file: Option<std::path::PathBuf>) {
    std::thread::spawn(move || {
        let mut last_ticks = TICKS.load(std::sync::atomic::Ordering::Relaxed);
        let mut cpu_at_tick = process_cpu_secs();
        let mut wall_at_tick = Instant::now();
        loop {
            std::thread::sleep(std::time::Duration::from_millis(500));
            let t = TICKS.load(std::sync::atomic::Ordering::Relaxed);
            let cpu = process_cpu_secs();
            if t != last_ticks {
                last_ticks = t;
                cpu_at_tick = cpu;
                wall_at_tick = Instant::now();
                continue;
            }
            let burnt = cpu - cpu_at_tick;
            let code = if burnt > STALL_CPU_SECS {
                EXIT_STALLED
            } else if wall_at_tick.elapsed().as_secs_f64() > BLOCKED_WALL_SECS && burnt < 1.0 {
                EXIT_BLOCKED
            } else {
                continue;
            };
            if let Some(f) = &stop_file {
                let _ = std::fs::write(f, b"");
            }
            unsafe { libc::_exit(code) }
        }
    });
}

fn worker_main<Y: System>(
    sys: &Y,
    jobs: &[Job<Y::State, Y::Action>],
    seen: &Seen,
    wi: usize,
    workers: usize,
    path: &std::path::Path,
    deadline: Instant,
) -> ! {
    let code = std::panic::catch_unwind(std::panic::AssertUnwindSafe(|| {
        let mut file = std::fs::File::create(path).expect("result file");
        let mut w = Worker::new("e1");
        let mut j = wi;
        let mut timed_out = false;
        let stop_file = path.with_file_name("stop-layer");
        spawn_watchdog(if sys.stop_layer_on_violation() { Some(stop_file.clone()) } else { None });
        while j < jobs.len() {
            tick();
            if Instant::now() > deadline {
                timed_out = true;
                break;
            }
            if sys.stop_layer_on_violation() && stop_file.exists() {
                break;
            }
            let job = &jobs[j];
            let step = sys.step(&mut w, job.state, &job.action, seen);
            if sys.stop_layer_on_violation() && !step.violations.is_empty() {
                let _ = std::fs::write(&stop_file, b"");
            }
            let mut e = Enc::default();
            e.u8(1);
            e.u32(j as u32);
            match &step.next {
                Some(s) => {
                    e.u8(1);
                    e.u128(sys.key(s));
                    let mut se = Enc::default();
                    sys.encode_state(s, &mut se);
                    e.bytes(&se.0);
                }
                None => e.u8(0),
            }
            let vj: Vec<Value> = step
                .violations
                .iter()
                .map(|v| json!({"signature": v.signature, "what": v.what, "replay": v.replay}))
                .collect();
            e.bytes(serde_json::to_string(&vj).unwrap().as_bytes());
            let mut framed = Enc::default();
            framed.bytes(&e.0);
            file.write_all(&framed.0).expect("write record");
            j += workers;
        }
        // trailer: counters and samples
        let mut e = Enc::default();
        e.u8(2);
        e.u8(timed_out as u8);
        let counters: BTreeMap<String, u64> =
            w.counters.iter().map(|(k, v)| (k.to_string(), *v)).collect();
        e.bytes(serde_json::to_string(&counters).unwrap().as_bytes());
        e.bytes(serde_json::to_string(&w.samples).unwrap().as_bytes());
        let mut framed = Enc::default();
        framed.bytes(&e.0);
        file.write_all(&framed.0).expect("write trailer");
        let _ = file.flush();
        drop(w); // removes the private environment of this worker
    }));
    unsafe { libc::_exit(if code.is_ok() { 0 } else { 3 }) }
}

/// Runs `f` on a thread that is the only thread of a private rayon pool (deterministic
/// builds) with a large stack. Used by forked workers and by sequential replays.
pub fn in_single_thread_pool<T: Send>(f: impl FnOnce() -> T + Send) -> T {
    let pool = rayon::ThreadPoolBuilder::new()
        .num_threads(1)
        .stack_size(1 << 30)
        .build()
        .expect("rayon pool");
    pool.install(f)
}

/// Breadth-first exploration; every layer is executed by forked workers.
pub fn explore<Y: System>(sys: &Y, caps: &Caps) -> Outcome {
    let started = Instant::now();
    let deadline = started + caps.max_wall;
    let seen = Seen::new();
    let mut out = Outcome::default();
    // node table for trace reconstruction: (parent, action)
    let mut nodes: Vec<(u32, Option<Y::Action>)> = Vec::new();
    let mut frontier: Vec<(u32, Y::State)> = Vec::new();
    for s in sys.initial() {
        if seen.claim(sys.key(&s)) {
            nodes.push((u32::MAX, None));
            frontier.push((nodes.len() as u32 - 1, s));
        }
    }
    out.states = frontier.len() as u64;
    out.layers.push(frontier.len() as u64);
    let mut signatures: HashSet<String> = HashSet::new();
    let max_workers = n_workers();
    let mut depth = 0usize;
    let spool = fresh_scratch_dir("spool");

    'layers: while !frontier.is_empty() {
        let mut jobs: Vec<Job<Y::State, Y::Action>> = Vec::new();
        for (node, st) in &frontier {
            for a in sys.actions(st) {
                jobs.push(Job { node: *node, state: st, action: a });
            }
        }
        if jobs.is_empty() {
            break;
        }
        let remaining = caps.max_transitions.saturating_sub(out.transitions);
        if (jobs.len() as u64) > remaining {
            out.cap_hit = Some(format!(
                "transition cap {} reached inside depth {} ({} of {} transitions of this layer not run)",
                caps.max_transitions,
                depth + 1,
                jobs.len() as u64 - remaining,
                jobs.len()
            ));
            jobs.truncate(remaining as usize);
        }
        let workers = max_workers.min(jobs.len().div_ceil(4)).max(1);
        let mut pids = Vec::new();
        std::io::stdout().flush().ok();
        std::io::stderr().flush().ok();
        for wi in 0..workers {
            let path = spool.join(format!("layer{}-w{}.bin", depth + 1, wi));
            let pid = unsafe { libc::fork() };
            if pid < 0 {
                out.machinery_errors.push("fork failed".into());
                break 'layers;
            }
            if pid == 0 {
                // the child: a fresh thread with a large stack that is its own rayon pool
                let jobs = &jobs;
                let seen = &seen;
                let path = &path;
                struct SendPtr<T>(T);
                unsafe impl<T> Send for SendPtr<T> {}
                let args = SendPtr((sys as *const Y, jobs as *const Vec<Job<Y::State, Y::Action>>, seen as *const Seen));
                in_single_thread_pool(move || -> () {
                    let args = args;
                    let (sys, jobs, seen) = unsafe { (&*args.0 .0, &*args.0 .1, &*args.0 .2) };
                    worker_main(sys, jobs, seen, wi, workers, path, deadline)
                });
                unsafe { libc::_exit(4) }
            }
            pids.push((wi, pid, path));
        }
        // collect
        let mut records: Vec<Record> = Vec::new();
        let mut timed_out = false;
        for (wi, pid, path) in pids {
            let mut status: libc::c_int = 0;
            unsafe { libc::waitpid(pid, &mut status, 0) };
            let bytes = std::fs::read(&path).unwrap_or_default();
            let _ = std::fs::remove_file(&path);
            let mut d = Dec::new(&bytes);
            let mut got_trailer = false;
            let mut done_jobs = 0usize;
            while !d.done() {
                if d.b.len() - d.p < 4 {
                    break;
                }
                let len = u32::from_le_bytes(d.b[d.p..d.p + 4].try_into().unwrap()) as usize;
                if d.b.len() - d.p - 4 < len {
                    break; // torn last record
                }
                let rec = d.bytes();
                let mut r = Dec::new(rec);
                match r.u8() {
                    1 => {
                        let job = r.u32() as usize;
                        let next = if r.u8() == 1 {
                            let key = r.u128();
                            Some((key, r.bytes().to_vec()))
                        } else {
                            None
                        };
                        let vj: Value =
                            serde_json::from_slice(r.bytes()).unwrap_or_else(|_| json!([]));
                        let violations = vj
                            .as_array()
                            .map(|a| {
                                a.iter()
                                    .map(|x| Violation {
                                        signature: x["signature"].as_str().unwrap_or("").into(),
                                        what: x["what"].as_str().unwrap_or("").into(),
                                        replay: x["replay"].clone(),
                                    })
                                    .collect()
                            })
                            .unwrap_or_default();
                        records.push(Record { job, next, violations });
                        done_jobs += 1;
                    }
                    2 => {
                        got_trailer = true;
                        if r.u8() == 1 {
                            timed_out = true;
                        }
                        if let Ok(Value::Object(c)) = serde_json::from_slice::<Value>(r.bytes()) {
                            for (k, v) in c {
                                merge_counter(&mut out.counters, &k, v.as_u64().unwrap_or(0));
                            }
                        }
                        if let Ok(Value::Array(s)) = serde_json::from_slice::<Value>(r.bytes()) {
                            for x in s {
                                if out.samples.len() < 8 {
                                    out.samples.push(x);
                                }
                            }
                        }
                    }
                    _ => break,
                }
            }
            if !got_trailer {
                // the worker died: the first job without a record crashed it
                let crashed = wi + done_jobs * workers;
                let how = if libc::WIFSIGNALED(status) {
                    format!("signal {}", libc::WTERMSIG(status))
                } else if libc::WEXITSTATUS(status) == EXIT_STALLED {
                    format!("non-termination: {STALL_CPU_SECS} s of CPU consumed without finishing or polling the cancel callback")
                } else if libc::WEXITSTATUS(status) == EXIT_BLOCKED {
                    format!("blocked: {BLOCKED_WALL_SECS} s without finishing, polling or using any CPU")
                } else {
                    format!("exit status {}", libc::WEXITSTATUS(status))
                };
                if crashed < jobs.len() {
                    let job = &jobs[crashed];
                    let trace = trace_of::<Y>(sys, &nodes, job.node, Some(&job.action));
                    let sig = match libc::WIFEXITED(status).then(|| libc::WEXITSTATUS(status)) {
                        Some(EXIT_STALLED) => format!("B/non-terminating-uncancellable:{}", sys.name()),
                        Some(EXIT_BLOCKED) => format!("B/blocked:{}", sys.name()),
                        _ => format!("CRASH/{}:{}", sys.name(), how),
                    };
                    if signatures.insert(sig.clone()) {
                        out.violations.push(Violation {
                            signature: sig,
                            what: format!(
                                "the process executing {} ended with {how}",
                                sys.action_json(&job.action)
                            ),
                            replay: json!({"engine": sys.name(), "config": sys.config_json(), "actions": trace}),
                        });
                    }
                    // the remaining jobs of this worker were not run
                    out.cap_hit.get_or_insert(format!(
                        "a worker died inside depth {}; its remaining jobs were not run",
                        depth + 1
                    ));
                } else {
                    out.machinery_errors
                        .push(format!("worker {wi} ended with {how} without a trailer"));
                }
            }
        }
        let stop_file = spool.join("stop-layer");
        if stop_file.exists() {
            let _ = std::fs::remove_file(&stop_file);
            if records.len() < jobs.len() {
                out.cap_hit.get_or_insert(format!(
                    "a violation was found: {} of {} scenarios of this layer were not run",
                    jobs.len() - records.len(),
                    jobs.len()
                ));
            }
        }
        records.sort_by_key(|r| r.job);
        let ran = records.len() as u64;
        out.transitions += ran;
        let mut next_frontier: Vec<(u32, Y::State)> = Vec::new();
        for rec in records {
            let job = &jobs[rec.job];
            if !rec.violations.is_empty() {
                let trace = trace_of::<Y>(sys, &nodes, job.node, Some(&job.action));
                for mut v in rec.violations {
                    if signatures.insert(v.signature.clone()) {
                        let mut replay = json!({
                            "engine": sys.name(),
                            "config": sys.config_json(),
                            "actions": trace.clone(),
                        });
                        if let (Some(obj), Some(extra)) =
                            (replay.as_object_mut(), v.replay.as_object())
                        {
                            for (k, x) in extra {
                                obj.insert(k.clone(), x.clone());
                            }
                        }
                        v.replay = replay;
                        out.violations.push(v);
                    }
                }
            }
            if let Some((key, bytes)) = rec.next {
                if seen.claim(key) {
                    let st = sys.decode_state(&mut Dec::new(&bytes));
                    nodes.push((job.node, Some(job.action.clone())));
                    next_frontier.push((nodes.len() as u32 - 1, st));
                }
            }
        }
        drop(jobs);
        out.states += next_frontier.len() as u64;
        if timed_out {
            out.cap_hit =
                Some(format!("wall cap {:?} reached inside depth {}", caps.max_wall, depth + 1));
            break;
        }
        if out.cap_hit.is_some() || !out.machinery_errors.is_empty() {
            break;
        }
        depth += 1;
        out.completed_depth = depth;
        out.layers.push(next_frontier.len() as u64);
        if signatures.len() >= caps.max_signatures {
            out.cap_hit =
                Some(format!("{} distinct violation signatures collected", signatures.len()));
            break;
        }
        frontier = next_frontier;
        // sample a trace of a deepest state for the evidence
        if let Some((node, _)) = frontier.last() {
            let t = trace_of::<Y>(sys, &nodes, *node, None);
            out.samples.push(json!({"history": t, "depth": depth}));
        }
    }
    let _ = std::fs::remove_dir_all(&spool);
    // keep the deepest samples
    if out.samples.len() > 6 {
        let drop_n = out.samples.len() - 6;
        out.samples.drain(0..drop_n);
    }
    out
}

fn trace_of<Y: System>(
    sys: &Y,
    nodes: &[(u32, Option<Y::Action>)],
    mut node: u32,
    last: Option<&Y::Action>,
) -> Vec<Value> {
    let mut rev = Vec::new();
    if let Some(a) = last {
        rev.push(sys.action_json(a));
    }
    while node != u32::MAX {
        let (parent, action) = &nodes[node as usize];
        if let Some(a) = action {
            rev.push(sys.action_json(a));
        }
        node = *parent;
    }
    rev.reverse();
    rev
}

/// Copies an exploration outcome into the report in the model_checking vocabulary.
pub fn record(report: &mut Report, label: &str, o: &Outcome) {
    report.cov_add("states", o.states);
    report.cov_add("transitions", o.transitions);
    report.cov_add("traces_validated_against_impl", o.transitions);
    let runs = report.coverage.entry("runs".to_string()).or_insert_with(|| json!([]));
    runs.as_array_mut().unwrap().push(json!({
        "run": label,
        "states": o.states,
        "transitions": o.transitions,
        "layer_sizes": o.layers,
        "completed_depth": o.completed_depth,
        "cap_hit": o.cap_hit,
        "counters": o.counters,
    }));
    if o.cap_hit.is_some() {
        report.cov("exhaustive", false);
    } else if !report.coverage.contains_key("exhaustive") {
        report.cov("exhaustive", true);
    }
    for (k, v) in &o.counters {
        if k.starts_with("max_") {
            let cur = report.coverage.get(k).and_then(|x| x.as_u64()).unwrap_or(0);
            report.cov(k, cur.max(*v));
        } else {
            report.cov_add(k, *v);
        }
    }
    for s in o.samples.iter().rev().take(2) {
        let mut s = s.clone();
        if let Some(obj) = s.as_object_mut() {
            obj.insert("run".into(), Value::from(label));
        }
        report.sample(s);
    }
    report.add_violations(o.violations.clone());
    for e in &o.machinery_errors {
        report.machinery_error(format!("{label}: {e}"));
    }
}
