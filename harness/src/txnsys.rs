//! The transactional history system (C05, C06, C07, C19): histories of item operations,
//! builds, commits and aborts over several indexes. Every transition replays the whole
//! history from an empty environment with *real* transactions (begin / commit / abort),
//! then executes one more action and observes through the public API, inside the write
//! transaction and — after a commit — from a fresh read transaction.

use std::collections::BTreeMap;

use heed::RoTxn;
use serde_json::{json, Value};

use crate::common::{
    arroy_db, catch, floats_of, hash128, kv_hash, sub_dump, Dec, Enc, Kv, Metric, RawDb, Violation,
    M7,
};
use crate::exec::{as_representable, exec, Action, ErrKind, IndexModel, Model, Outcome};
use crate::explore::{Seen, Step, System, Worker};
use crate::layout::{decode_index, expected_vector_bytes, parse_key};
use crate::with_metric;

#[derive(Clone, Debug, Default)]
pub struct TxnObs {
    pub store: bool,
    pub staleness: bool,
    pub rejected: bool,
    pub isolation: bool,
    /// S + exact search on every index that opens (C18 after a metric change and rebuild)
    pub forest: bool,
    /// C18: the clauses on prepare_changing_distance itself
    pub metric_change: bool,
}

#[derive(Clone, Debug)]
pub struct TxnCfg {
    pub indexes: Vec<(u16, Metric, usize)>,
    /// the static action menu (item operations and builds; Commit / Abort are added when enabled)
    pub menu: Vec<Action>,
    /// executed before the exploration starts (the initial state is the state after it)
    pub prefix: Vec<Action>,
    pub transactions: bool,
    pub max_depth: usize,
    pub obs: TxnObs,
    /// ids observed on every index
    pub probe_ids: Vec<u32>,
    pub label: String,
}

impl TxnCfg {
    pub fn to_json(&self) -> Value {
        json!({
            "indexes": self.indexes.iter().map(|(i, m, d)| json!({"index": i, "metric": m.short(), "dim": d})).collect::<Vec<_>>(),
            "menu": self.menu.iter().map(|a| a.to_json()).collect::<Vec<_>>(),
            "prefix": self.prefix.iter().map(|a| a.to_json()).collect::<Vec<_>>(),
            "transactions": self.transactions,
            "max_depth": self.max_depth,
            "obs": {"store": self.obs.store, "staleness": self.obs.staleness, "rejected": self.obs.rejected, "isolation": self.obs.isolation, "forest": self.obs.forest, "metric_change": self.obs.metric_change},
            "probe_ids": self.probe_ids,
            "label": self.label,
        })
    }

    pub fn from_json(v: &Value) -> Option<TxnCfg> {
        Some(TxnCfg {
            indexes: v["indexes"]
                .as_array()?
                .iter()
                .filter_map(|x| {
                    Some((
                        x["index"].as_u64()? as u16,
                        Metric::from_short(x["metric"].as_str()?)?,
                        x["dim"].as_u64()? as usize,
                    ))
                })
                .collect(),
            menu: v["menu"].as_array()?.iter().filter_map(Action::from_json).collect(),
            prefix: v["prefix"].as_array().map(|a| a.iter().filter_map(Action::from_json).collect()).unwrap_or_default(),
            transactions: v["transactions"].as_bool().unwrap_or(true),
            max_depth: v["max_depth"].as_u64()? as usize,
            obs: TxnObs {
                store: v["obs"]["store"].as_bool().unwrap_or(false),
                staleness: v["obs"]["staleness"].as_bool().unwrap_or(false),
                rejected: v["obs"]["rejected"].as_bool().unwrap_or(false),
                isolation: v["obs"]["isolation"].as_bool().unwrap_or(false),
                forest: v["obs"]["forest"].as_bool().unwrap_or(false),
                metric_change: v["obs"]["metric_change"].as_bool().unwrap_or(false),
            },
            probe_ids: v["probe_ids"].as_array()?.iter().map(|x| x.as_u64().unwrap_or(0) as u32).collect(),
            label: v["label"].as_str().unwrap_or("").to_string(),
        })
    }
}

#[derive(Clone)]
pub struct TState {
    pub history: Vec<Action>,
    pub key: u128,
}

pub struct TxnSystem {
    pub cfg: TxnCfg,
}

/// What the statement prescribes for the outcome of an action, given the database content.
#[derive(Debug, PartialEq)]
pub enum Expect {
    Unit,
    Bool(bool),
    Err(ErrKind),
}

pub fn max_key(kv: &Kv) -> Option<&Vec<u8>> {
    kv.last().map(|(k, _)| k)
}

pub fn expected_outcome(a: &Action, model: &Model, kv: &Kv) -> Expect {
    match a {
        Action::Add { index, vec, .. } | Action::Append { index, vec, .. } => {
            let dim = model.indexes[index].dim;
            if vec.len() != dim {
                return Expect::Err(ErrKind::InvalidVecDimension { expected: dim, received: vec.len() });
            }
            if let Action::Append { index, id, .. } = a {
                let key = crate::layout::encode_key(*index, crate::layout::KIND_ITEM, *id).to_vec();
                if let Some(mk) = max_key(kv) {
                    if key <= *mk {
                        return Expect::Err(ErrKind::InvalidItemAppend);
                    }
                }
            }
            Expect::Unit
        }
        Action::Del { index, id } => Expect::Bool(model.indexes[index].items.contains_key(id)),
        Action::Clear { .. } | Action::ChangeMetric { .. } => Expect::Unit,
        Action::Build { opts, .. } => match opts.cancel_at {
            Some(0) => Expect::Err(ErrKind::BuildCancelled),
            _ => Expect::Unit,
        },
        Action::Commit | Action::Abort => Expect::Unit,
    }
}

fn outcome_matches(e: &Expect, o: &Outcome) -> bool {
    match (e, o) {
        (Expect::Unit, Outcome::Unit) => true,
        (Expect::Bool(a), Outcome::Bool(b)) => a == b,
        (Expect::Err(a), Outcome::Err(b)) => a == b,
        _ => false,
    }
}

thread_local! {
    /// committed content and model after the prefix, computed once per worker process
    static PREFIX_CACHE: std::cell::RefCell<Option<(Kv, Model)>> = const { std::cell::RefCell::new(None) };
}

/// The replayed world: one environment, its committed content and the open write transaction.
struct World<'e> {
    db: RawDb,
    env: &'e crate::common::Env,
    wtxn: Option<heed::RwTxn<'e>>,
    committed_model: Model,
    model: Model,
    committed_kv: Kv,
}

impl<'e> World<'e> {
    /// Resets the environment with a real transaction: empty, or — when the configuration
    /// has a prefix (which must end with a commit) — to the committed content the prefix
    /// produced when it was really executed once in this worker.
    fn new(env: &'e crate::common::Env, db: RawDb, cfg: &TxnCfg, preload: Option<&(Kv, Model)>) -> World<'e> {
        let mut w = env.write_txn().expect("wtxn");
        db.clear(&mut w).expect("clear");
        let (model, kv) = match preload {
            Some((kv, model)) => {
                for (k, v) in kv {
                    db.put_with_flags(&mut w, heed::PutFlags::APPEND, k, v).expect("preload");
                }
                (model.clone(), kv.clone())
            }
            None => (Model::with(&cfg.indexes), Vec::new()),
        };
        w.commit().expect("commit");
        World {
            db,
            env,
            wtxn: Some(env.write_txn().expect("wtxn")),
            committed_model: model.clone(),
            model,
            committed_kv: kv,
        }
    }

    fn dump(&self) -> Kv {
        crate::common::dump(self.db, self.wtxn.as_ref().unwrap())
    }

    /// Executes one action; returns its outcome (Commit/Abort are real).
    fn apply(&mut self, a: &Action) -> Outcome {
        match a {
            Action::Commit => {
                let w = self.wtxn.take().unwrap();
                match w.commit() {
                    Ok(()) => {}
                    Err(e) => return Outcome::Err(ErrKind::Heed(e.to_string())),
                }
                self.committed_model = self.model.clone();
                let r = self.env.read_txn().expect("rtxn");
                self.committed_kv = crate::common::dump(self.db, &r);
                drop(r);
                self.wtxn = Some(self.env.write_txn().expect("wtxn"));
                Outcome::Unit
            }
            Action::Abort => {
                let w = self.wtxn.take().unwrap();
                w.abort();
                self.model = self.committed_model.clone();
                self.wtxn = Some(self.env.write_txn().expect("wtxn"));
                Outcome::Unit
            }
            _ => {
                let mut types = self.model.types();
                let (o, _) = exec(self.db, self.wtxn.as_mut().unwrap(), &mut types, a);
                if o.is_ok() {
                    self.model.apply_ok(a);
                }
                o
            }
        }
    }
}

impl TxnSystem {
    fn state_key(&self, committed: &Kv, working: &Kv, cm: &Model, wm: &Model, _depth: usize) -> u128 {
        // no depth in the key: breadth-first order reaches every state first at its minimal depth,
        // so every continuation within the depth bound is explored from there
        hash128(&[
            &kv_hash(committed).to_le_bytes(),
            &kv_hash(working).to_le_bytes(),
            &cm.hash_bytes(),
            &wm.hash_bytes(),
        ])
    }
}

impl System for TxnSystem {
    type State = TState;
    type Action = Action;

    fn name(&self) -> &'static str {
        "txn"
    }
    fn config_json(&self) -> Value {
        self.cfg.to_json()
    }
    fn initial(&self) -> Vec<TState> {
        // the prefix is part of every history; its state key is a sentinel (never produced by a dump)
        vec![TState { history: self.cfg.prefix.clone(), key: 0 }]
    }
    fn key(&self, s: &TState) -> u128 {
        s.key
    }
    fn actions(&self, s: &TState) -> Vec<Action> {
        if s.history.len() >= self.cfg.max_depth + self.cfg.prefix.len() {
            return Vec::new();
        }
        let mut v = self.cfg.menu.clone();
        if self.cfg.transactions {
            v.push(Action::Commit);
            v.push(Action::Abort);
        }
        v
    }
    fn action_json(&self, a: &Action) -> Value {
        a.to_json()
    }
    fn encode_state(&self, s: &TState, e: &mut Enc) {
        e.u128(s.key);
        e.bytes(serde_json::to_string(&s.history.iter().map(|a| a.to_json()).collect::<Vec<_>>()).unwrap().as_bytes());
    }
    fn decode_state(&self, d: &mut Dec) -> TState {
        let key = d.u128();
        let v: Value = serde_json::from_slice(d.bytes()).unwrap();
        TState { history: v.as_array().unwrap().iter().filter_map(Action::from_json).collect(), key }
    }

    fn step(&self, w: &mut Worker, s: &TState, a: &Action, seen: &Seen) -> Step<TState> {
        let cfg = &self.cfg;
        let env = w.scratch.env.clone();
        let n_prefix = cfg.prefix.len();
        if n_prefix > 0 && PREFIX_CACHE.with(|c| c.borrow().is_none()) {
            assert!(matches!(cfg.prefix.last(), Some(Action::Commit)), "a prefix must end with a commit");
            let mut world = World::new(&env, w.scratch.db, cfg, None);
            for h in &cfg.prefix {
                let o = world.apply(h);
                assert!(o.is_ok(), "the prefix action {h:?} failed: {}", o.describe());
            }
            let done = (world.committed_kv.clone(), world.committed_model.clone());
            drop(world);
            PREFIX_CACHE.with(|c| *c.borrow_mut() = Some(done));
        }
        let preload = PREFIX_CACHE.with(|c| c.borrow().clone());
        let mut world = World::new(&env, w.scratch.db, cfg, preload.as_ref());
        for h in &s.history[n_prefix.min(s.history.len())..] {
            let _ = world.apply(h);
        }
        let before = world.dump();
        let committed_before = world.committed_kv.clone();
        let expect = expected_outcome(a, &world.model, &before);
        let model_before = world.model.clone();
        let outcome = world.apply(a);
        let mut violations = Vec::new();
        if let Outcome::Panic(p) = &outcome {
            violations.push(Violation::new(
                format!("T/panicked:{}", p.site()),
                format!("{} panicked at {}: {}", a.to_json(), p.location, p.message),
            ));
            return Step { next: None, violations };
        }
        if !outcome_matches(&expect, &outcome) {
            violations.push(Violation::new(
                format!("T/outcome:{}", op_tag(a)),
                format!("{} returned {}, the statement prescribes {:?}", a.to_json(), outcome.describe(), expect),
            ));
            return Step { next: None, violations };
        }
        w.count(if outcome.is_ok() { "actions_ok" } else { "actions_rejected" }, 1);
        let after = world.dump();
        // a rejected or no-op call must not change anything (C19 / C06)
        let is_noop = !outcome.is_ok() || matches!(outcome, Outcome::Bool(false));
        if is_noop && before != after {
            violations.push(Violation::new(
                format!("RJ/db-changed:{}", op_tag(a)),
                format!("{} returned {} but changed the database: {}", a.to_json(), outcome.describe(), diff_summary(&before, &after)),
            ));
        }
        // isolation (C07): an action on one index leaves every other index byte-identical
        if cfg.obs.isolation {
            if let Some(ai) = a.index() {
                for (i, _, _) in &cfg.indexes {
                    if *i != ai && sub_dump(&before, *i) != sub_dump(&after, *i) {
                        violations.push(Violation::new(
                            format!("ISO/other-index-changed:{}", op_tag(a)),
                            format!("{} on index {ai} changed index {i}: {}", a.to_json(), diff_summary(&sub_dump(&before, *i), &sub_dump(&after, *i))),
                        ));
                    }
                }
                // nothing outside the declared indexes may appear either
                let foreign = |kv: &Kv| kv.iter().filter(|(k, _)| parse_key(k).map_or(true, |p| !cfg.indexes.iter().any(|(i, _, _)| *i == p.index))).count();
                if foreign(&after) != 0 {
                    violations.push(Violation::new("ISO/foreign-keys", format!("{} created keys outside the declared indexes", a.to_json())));
                }
            }
        }
        match a {
            Action::Abort => {
                if after != committed_before {
                    violations.push(Violation::new(
                        "T/abort-left-trace",
                        format!("after abort the database differs from the last committed content: {}", diff_summary(&committed_before, &after)),
                    ));
                }
            }
            Action::Commit => {
                if world.committed_kv != before {
                    violations.push(Violation::new(
                        "T/commit-changed-content",
                        format!("a fresh read transaction after commit does not see what the writer saw: {}", diff_summary(&before, &world.committed_kv)),
                    ));
                }
            }
            _ => {}
        }
        if let (true, Action::ChangeMetric { index, to }) = (cfg.obs.metric_change, a) {
            let from = model_before.indexes[index].metric;
            if from == *to {
                if before != after {
                    violations.push(Violation::new(
                        "MC/same-metric-changed",
                        format!("prepare_changing_distance to the same metric {} changed the database: {}", to.short(), diff_summary(&before, &after)),
                    ));
                }
                w.count("metric_change_same", 1);
            } else {
                let left: Vec<String> = after
                    .iter()
                    .filter_map(|(k, _)| parse_key(k).ok())
                    .filter(|k| k.index == *index && (k.kind == crate::layout::KIND_TREE || (k.kind == crate::layout::KIND_METADATA && k.id == 0)))
                    .map(|k| format!("({},{},{})", k.index, k.kind, k.id))
                    .collect();
                if !left.is_empty() {
                    violations.push(Violation::new(
                        "MC/forest-left",
                        format!("after changing index {index} from {} to {} tree/metadata keys remain: {left:?}", from.short(), to.short()),
                    ));
                }
                w.count("metric_change_real", 1);
            }
        }
        let mut history = s.history.clone();
        history.push(a.clone());
        let key = self.state_key(&world.committed_kv, &after, &world.committed_model, &world.model, history.len());
        let fresh = seen.claim(key);
        // observations: on every new state, and after every commit also from a fresh read txn
        if fresh && violations.is_empty() {
            w.count("observed_states", 1);
            let wtxn = world.wtxn.take().unwrap();
            violations.extend(observe(cfg, world.db, &wtxn, &world.model, &after, "in the write transaction", w));
            if matches!(a, Action::Commit) && violations.is_empty() {
                drop(wtxn);
                let rtxn = env.read_txn().expect("rtxn");
                violations.extend(observe(cfg, world.db, &rtxn, &world.committed_model, &world.committed_kv, "from a fresh read transaction after commit", w));
                drop(rtxn);
                w.count("observed_after_commit", 1);
            } else {
                if cfg.obs.rejected && violations.is_empty() {
                    let mut wtxn = wtxn;
                    violations.extend(rejected_probes(cfg, &env, world.db, &mut wtxn, &world.model, &after, w));
                    drop(wtxn);
                } else {
                    drop(wtxn);
                }
            }
        } else {
            w.count("transitions_to_known_state", 1);
        }
        let _ = model_before;
        if !violations.is_empty() || !fresh {
            return Step { next: None, violations };
        }
        Step { next: Some(TState { history, key }), violations }
    }
}

fn op_tag(a: &Action) -> &'static str {
    match a {
        Action::Add { .. } => "add",
        Action::Append { .. } => "append",
        Action::Del { .. } => "del",
        Action::Clear { .. } => "clear",
        Action::Build { .. } => "build",
        Action::ChangeMetric { .. } => "change-metric",
        Action::Commit => "commit",
        Action::Abort => "abort",
    }
}

pub fn diff_summary(a: &Kv, b: &Kv) -> String {
    let ma: BTreeMap<&Vec<u8>, &Vec<u8>> = a.iter().map(|(k, v)| (k, v)).collect();
    let mb: BTreeMap<&Vec<u8>, &Vec<u8>> = b.iter().map(|(k, v)| (k, v)).collect();
    let mut parts = Vec::new();
    for (k, v) in &ma {
        match mb.get(k) {
            None => parts.push(format!("-{}", show_key(k))),
            Some(v2) if v2 != v => parts.push(format!("~{}", show_key(k))),
            _ => {}
        }
    }
    for k in mb.keys() {
        if !ma.contains_key(k) {
            parts.push(format!("+{}", show_key(k)));
        }
    }
    let n = parts.len();
    parts.truncate(6);
    format!("{} keys differ [{}]", n, parts.join(" "))
}

pub fn show_key(k: &[u8]) -> String {
    match parse_key(k) {
        Ok(p) => format!("({},{},{})", p.index, ["meta", "updated", "tree", "item"][p.kind as usize], p.id),
        Err(_) => format!("{k:02x?}"),
    }
}

/// C05 + C06 observations of every index through the public API on `rtxn`.
fn observe(cfg: &TxnCfg, db: RawDb, rtxn: &RoTxn, model: &Model, kv: &Kv, ctx: &str, w: &mut Worker) -> Vec<Violation> {
    let mut out = Vec::new();
    for (index, ix) in &model.indexes {
        if let Err((c, m)) = observe_index(cfg, db, rtxn, *index, ix, kv, w) {
            out.push(Violation::new(c, format!("index {index}, {ctx}: {m}")));
        }
    }
    out
}

fn observe_index(cfg: &TxnCfg, db: RawDb, rtxn: &RoTxn, index: u16, ix: &IndexModel, kv: &Kv, w: &mut Worker) -> Result<(), (String, String)> {
    let metric = ix.metric;
    let dim = ix.dim;
    let api = ix.api_items();
    let e = |c: &str, m: String| Err((c.to_string(), m));
    let r = catch(|| -> Result<(), (String, String)> {
        with_metric!(metric, D => {
            let adb = arroy_db::<D>(db);
            let writer = arroy::Writer::<D>::new(adb, index, dim);
            let herr = |x: arroy::Error| ("T/api-error".to_string(), x.to_string());
            if cfg.obs.store {
                let mut ids: Vec<u32> = cfg.probe_ids.clone();
                ids.extend(api.keys().copied());
                ids.sort();
                ids.dedup();
                for id in &ids {
                    let c = writer.contains_item(rtxn, *id).map_err(herr)?;
                    if c != api.contains_key(id) {
                        return e("ST/contains", format!("contains_item({id}) = {c}, model says {}", api.contains_key(id)));
                    }
                    let v = writer.item_vector(rtxn, *id).map_err(herr)?.map(|v| crate::common::bits_of(&v));
                    if v.as_ref() != api.get(id) {
                        return e("ST/vector", format!("item_vector({id}) = {:?}, last written (as representable) {:?}", v.as_ref().map(|x| crate::exec::show_vec(x)), api.get(id).map(|x| crate::exec::show_vec(x))));
                    }
                }
                let mut got: Vec<(u32, Vec<u32>)> = Vec::new();
                for item in writer.iter(rtxn).map_err(herr)? {
                    let (id, v) = item.map_err(herr)?;
                    got.push((id, crate::common::bits_of(&v)));
                }
                let want: Vec<(u32, Vec<u32>)> = api.iter().map(|(k, v)| (*k, v.clone())).collect();
                if got != want {
                    let gl: Vec<(u32, usize)> = got.iter().map(|(i, v)| (*i, v.len())).collect();
                    let wl: Vec<(u32, usize)> = want.iter().map(|(i, v)| (*i, v.len())).collect();
                    return e("ST/iter", format!("Writer::iter yields (id, len) {gl:?}, expected {wl:?} in ascending order with the stored vectors at dimension {dim}"));
                }
                let empty = writer.is_empty(rtxn).map_err(herr)?;
                if empty != api.is_empty() {
                    return e("ST/is-empty", format!("is_empty() = {empty} with {} items", api.len()));
                }
                // the raw leaves hold exactly what was written (DotProduct's preprocess rewrites them)
                let dix = decode_index(kv, index, metric, dim).map_err(|m| ("F/undecodable".to_string(), m))?;
                for (id, written) in &ix.items {
                    let leaf = dix.items.get(id).ok_or_else(|| ("ST/raw-missing".to_string(), format!("no leaf key for item {id}")))?;
                    if leaf.vector != expected_vector_bytes(metric, written) {
                        return e("ST/raw-vector", format!("the stored vector bytes of item {id} are not the encoding of what was written"));
                    }
                }
                if dix.items.len() != ix.items.len() {
                    return e("ST/raw-extra", format!("{} leaf keys for {} items", dix.items.len(), ix.items.len()));
                }
                w.count("store_observations", 1);
            }
            // C06: open / need_build
            let need = writer.need_build(rtxn).map_err(herr)?;
            let open = arroy::Reader::<D>::open(rtxn, index, adb);
            let built = ix.built.is_some();
            if cfg.obs.staleness {
                let want_need = !built || ix.stale;
                if need != want_need {
                    return e("SL/need-build", format!("need_build() = {need}, expected {want_need} (built: {built}, stale: {})", ix.stale));
                }
                let got = match &open {
                    Ok(_) => "Ok".to_string(),
                    Err(x) => ErrKind::of(x).tag(),
                };
                let want = if !built { "MissingMetadata" } else if ix.stale { "NeedBuild" } else { "Ok" };
                if got != want {
                    return e(&format!("SL/open:{want}"), format!("Reader::open = {got}, expected {want} (built: {built}, stale: {})", ix.stale));
                }
                // every other metric
                for om in M7 {
                    if om == metric {
                        continue;
                    }
                    let got_other = with_metric!(om, OD => {
                        match arroy::Reader::<OD>::open(rtxn, index, arroy_db::<OD>(db)) {
                            Ok(_) => "Ok".to_string(),
                            Err(x) => ErrKind::of(&x).tag(),
                        }
                    });
                    let ok = if !built {
                        got_other == "MissingMetadata"
                    } else if ix.stale {
                        got_other == "UnmatchingDistance" || got_other == "NeedBuild"
                    } else {
                        got_other == "UnmatchingDistance"
                    };
                    if !ok {
                        return e("SL/open-wrong-metric", format!("Reader::<{}>::open on an index of metric {} (built: {built}, stale: {}) = {got_other}", om.short(), metric.short(), ix.stale));
                    }
                    // the need-build query answers true in exactly the first two situations: a writer
                    // typed with another metric must give the same answer as the index's own
                    let need_other = with_metric!(om, OD => arroy::Writer::<OD>::new(arroy_db::<OD>(db), index, dim).need_build(rtxn).map_err(|x| x.to_string()));
                    if need_other != Ok(want_need) {
                        return e("SL/need-build-wrong-metric", format!("Writer::<{}>::need_build on an index of metric {} (built: {built}, stale: {}) = {need_other:?}, expected {want_need}", om.short(), metric.short(), ix.stale));
                    }
                }
                w.count("staleness_observations", 1);
                match want {
                    "Ok" => w.count("open_ok", 1),
                    "NeedBuild" => w.count("open_need_build", 1),
                    _ => w.count("open_missing_metadata", 1),
                }
            }
            if cfg.obs.forest && built && !ix.stale {
                drop(open);
                let dix = decode_index(kv, index, metric, dim).map_err(|m| ("F/undecodable".to_string(), m))?;
                let expect: std::collections::BTreeSet<u32> = ix.items.keys().copied().collect();
                crate::oracle::structure(&dix, &expect, metric, dim)?;
                let mut qvecs: Vec<Vec<u32>> = ix.items.values().cloned().collect();
                qvecs.push((0..dim).map(|j| if j % 2 == 0 { 1.0f32 } else { -2.0f32 }.to_bits()).collect());
                qvecs.sort();
                qvecs.dedup();
                crate::hist::exact_search_on(metric, dim, index, db, rtxn, &ix.items, &qvecs, w)?;
                w.count("forests_checked", 1);
                return Ok(());
            }
            if cfg.obs.store {
                if let Ok(reader) = &open {
                    let ids: Vec<u32> = reader.item_ids().iter().collect();
                    let want: Vec<u32> = api.keys().copied().collect();
                    if ids != want {
                        return e("ST/reader-ids", format!("Reader::item_ids = {ids:?}, stored {want:?}"));
                    }
                    if reader.n_items() != want.len() as u64 {
                        return e("ST/reader-n-items", format!("Reader::n_items = {}, stored {}", reader.n_items(), want.len()));
                    }
                    if reader.dimensions() != dim {
                        return e("ST/reader-dim", format!("Reader::dimensions = {}, declared {dim}", reader.dimensions()));
                    }
                    for (id, v) in &api {
                        let got = reader.item_vector(rtxn, *id).map_err(herr)?.map(|v| crate::common::bits_of(&v));
                        if got.as_ref() != Some(v) {
                            return e("ST/reader-vector", format!("Reader::item_vector({id}) differs from what was written"));
                        }
                        if !reader.contains_item(rtxn, *id).map_err(herr)? {
                            return e("ST/reader-contains", format!("Reader::contains_item({id}) = false"));
                        }
                    }
                    let mut got: Vec<(u32, Vec<u32>)> = Vec::new();
                    for item in reader.iter(rtxn).map_err(herr)? {
                        let (id, v) = item.map_err(herr)?;
                        got.push((id, crate::common::bits_of(&v)));
                    }
                    let wantv: Vec<(u32, Vec<u32>)> = api.iter().map(|(k, v)| (*k, v.clone())).collect();
                    if got != wantv {
                        let gl: Vec<(u32, usize)> = got.iter().map(|(i, v)| (*i, v.len())).collect();
                        return e("ST/reader-iter", format!("Reader::iter yields (id, len) {gl:?}, expected the {} stored vectors at dimension {dim}", wantv.len()));
                    }
                    if reader.is_empty(rtxn).map_err(herr)? != api.is_empty() {
                        return e("ST/reader-is-empty", "Reader::is_empty disagrees with the stored items".to_string());
                    }
                    w.count("reader_observations", 1);
                }
            }
            Ok(())
        })
    });
    match r {
        Ok(x) => x,
        Err(p) => Err((format!("T/observer-panicked:{}", p.site()), format!("panic at {}: {}", p.location, p.message))),
    }
}

/// C19: a battery of calls that must be rejected (or be no-ops), each inside a nested
/// transaction that is aborted afterwards, with the dump compared before the abort.
fn rejected_probes(cfg: &TxnCfg, env: &crate::common::Env, db: RawDb, wtxn: &mut heed::RwTxn, model: &Model, kv: &Kv, w: &mut Worker) -> Vec<Violation> {
    let mut out = Vec::new();
    for (index, ix) in &model.indexes {
        let dim = ix.dim;
        let mut probes: Vec<Action> = Vec::new();
        let mut lens = vec![0usize, dim.saturating_sub(1), dim + 1, 2 * dim, 1000];
        lens.retain(|l| *l != dim);
        lens.sort();
        lens.dedup();
        for l in lens {
            let v: Vec<u32> = (0..l).map(|i| (i as f32 + 1.0).to_bits()).collect();
            probes.push(Action::Add { index: *index, id: 1, vec: v.clone() });
            probes.push(Action::Append { index: *index, id: u32::MAX, vec: v });
        }
        // appends around the current maximum key of the whole database
        let good: Vec<u32> = (0..dim).map(|i| (i as f32 - 1.0).to_bits()).collect();
        let mut append_ids: Vec<u32> = vec![0, 1, u32::MAX];
        if let Some(mk) = max_key(kv).and_then(|k| parse_key(k).ok()) {
            append_ids.extend([mk.id, mk.id.wrapping_add(1), mk.id.wrapping_sub(1)]);
        }
        append_ids.extend(cfg.probe_ids.iter().copied());
        append_ids.sort();
        append_ids.dedup();
        for id in append_ids {
            probes.push(Action::Append { index: *index, id, vec: good.clone() });
        }
        for id in cfg.probe_ids.iter().copied().chain([5u32, 1 << 20]) {
            if !ix.items.contains_key(&id) {
                probes.push(Action::Del { index: *index, id });
            }
        }
        for p in probes {
            let expect = expected_outcome(&p, model, kv);
            let mut nested = env.nested_write_txn(wtxn).expect("nested txn");
            let mut types = model.types();
            let (o, _) = exec(db, &mut nested, &mut types, &p);
            let after = crate::common::dump(db, &nested);
            w.count("rejected_probes", 1);
            if !outcome_matches(&expect, &o) {
                out.push(Violation::new(
                    format!("RJ/error-value:{}", op_tag(&p)),
                    format!("{} returned {}, the statement prescribes {:?}", p.to_json(), o.describe(), expect),
                ));
            } else if !o.is_ok() || matches!(o, Outcome::Bool(false)) {
                if &after != kv {
                    out.push(Violation::new(
                        format!("RJ/db-changed:{}", op_tag(&p)),
                        format!("{} returned {} but changed the database: {}", p.to_json(), o.describe(), diff_summary(kv, &after)),
                    ));
                }
                w.count("rejected_probes_rejected", 1);
            } else if let Action::Append { index, id, vec } = &p {
                // an accepted append behaves exactly like add_item from the same state
                nested.abort();
                let mut n2 = env.nested_write_txn(wtxn).expect("nested txn");
                let mut types = model.types();
                let (o2, _) = exec(db, &mut n2, &mut types, &Action::Add { index: *index, id: *id, vec: vec.clone() });
                let after_add = crate::common::dump(db, &n2);
                n2.abort();
                w.count("accepted_appends_compared", 1);
                if !o2.is_ok() || after_add != after {
                    out.push(Violation::new(
                        "RJ/append-differs-from-add",
                        format!("{}: the database after the accepted append differs from the one add_item produces: {}", p.to_json(), diff_summary(&after_add, &after)),
                    ));
                }
                if !out.is_empty() {
                    return out;
                }
                continue;
            }
            nested.abort();
            if !out.is_empty() {
                return out;
            }
        }
        // searching with a vector of the wrong length (needs an openable index)
        if ix.built.is_some() && !ix.stale {
            let r = with_metric!(ix.metric, D => {
                let mut bad = None;
                if let Ok(reader) = arroy::Reader::<D>::open(wtxn, *index, arroy_db::<D>(db)) {
                    for l in [0usize, dim.saturating_sub(1), dim + 1, 2 * dim, 1000] {
                        if l == dim { continue; }
                        let v = vec![1.0f32; l];
                        // every query option that could make the answer trivially empty: the length is judged first
                        let empty = roaring::RoaringBitmap::new();
                        let disjoint: roaring::RoaringBitmap = [u32::MAX - 7].into_iter().collect();
                        let all: roaring::RoaringBitmap = ix.items.keys().copied().collect();
                        'options: for count in [3usize, 0, usize::MAX] {
                            for (fname, filter) in [("none", None), ("empty", Some(&empty)), ("disjoint", Some(&disjoint)), ("all items", Some(&all))] {
                                for budget in [None, Some(1usize)] {
                                    w.count("rejected_probes", 1);
                                    let mut q = reader.nns(count);
                                    if let Some(f) = filter {
                                        q.candidates(f);
                                    }
                                    if let Some(b) = budget.and_then(std::num::NonZeroUsize::new) {
                                        q.search_k(b);
                                    }
                                    match q.by_vector(wtxn, &v) {
                                        Err(arroy::Error::InvalidVecDimension { expected, received }) if expected == dim && received == l => {}
                                        other => {
                                            bad = Some(format!("nns({count}) candidates={fname} search_k={budget:?} by_vector with {l} components on a {dim}-dimensional index returned {:?}", other.map_err(|e| e.to_string())));
                                            break 'options;
                                        }
                                    }
                                }
                            }
                        }
                        if bad.is_some() {
                            break;
                        }
                    }
                }
                bad
            });
            if let Some(m) = r {
                out.push(Violation::new("RJ/error-value:by_vector", m));
                return out;
            }
        }
    }
    let _ = floats_of;
    let _ = as_representable;
    let _ = M7;
    out
}
