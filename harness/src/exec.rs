//! Actions of the exploration alphabets, their execution on the real arroy API, and the
//! reference model (a `BTreeMap` per index).

use std::collections::BTreeMap;
use std::sync::atomic::{AtomicU64, Ordering};

use heed::RwTxn;
use rand::rngs::StdRng;
use rand::SeedableRng;
use serde_json::{json, Value};

use crate::common::{arroy_db, catch, floats_of, Metric, Panicked, RawDb};
use crate::with_metric;

#[derive(Clone, Debug, PartialEq, Eq, Hash)]
pub struct BuildOpts {
    pub n_trees: Option<usize>,
    pub split_after: Option<usize>,
    pub memory: Option<usize>,
    pub seed: u64,
    /// the cancel callback answers true from its n-th call (0-based) on
    pub cancel_at: Option<u64>,
}

impl BuildOpts {
    pub fn new(seed: u64) -> BuildOpts {
        BuildOpts { n_trees: None, split_after: None, memory: None, seed, cancel_at: None }
    }
}

#[derive(Clone, Debug, PartialEq, Eq, Hash)]
pub enum Action {
    Add { index: u16, id: u32, vec: Vec<u32> },
    Append { index: u16, id: u32, vec: Vec<u32> },
    Del { index: u16, id: u32 },
    Clear { index: u16 },
    Build { index: u16, opts: BuildOpts },
    ChangeMetric { index: u16, to: Metric },
    Commit,
    Abort,
}

impl Action {
    pub fn index(&self) -> Option<u16> {
        match self {
            Action::Add { index, .. }
            | Action::Append { index, .. }
            | Action::Del { index, .. }
            | Action::Clear { index }
            | Action::Build { index, .. }
            | Action::ChangeMetric { index, .. } => Some(*index),
            Action::Commit | Action::Abort => None,
        }
    }

    pub fn is_build(&self) -> bool {
        matches!(self, Action::Build { .. })
    }

    pub fn to_json(&self) -> Value {
        match self {
            Action::Add { index, id, vec } => {
                json!({"op":"add","index":index,"id":id,"vec_bits":vec,"vec":show_vec(vec)})
            }
            Action::Append { index, id, vec } => {
                json!({"op":"append","index":index,"id":id,"vec_bits":vec,"vec":show_vec(vec)})
            }
            Action::Del { index, id } => json!({"op":"del","index":index,"id":id}),
            Action::Clear { index } => json!({"op":"clear","index":index}),
            Action::Build { index, opts } => json!({
                "op":"build","index":index,"n_trees":opts.n_trees,"split_after":opts.split_after,
                "memory":opts.memory,"seed":opts.seed,"cancel_at":opts.cancel_at}),
            Action::ChangeMetric { index, to } => {
                json!({"op":"change_metric","index":index,"to":to.short()})
            }
            Action::Commit => json!({"op":"commit"}),
            Action::Abort => json!({"op":"abort"}),
        }
    }

    pub fn from_json(v: &Value) -> Option<Action> {
        let index = v["index"].as_u64().unwrap_or(0) as u16;
        let id = v["id"].as_u64().unwrap_or(0) as u32;
        let vec = || -> Vec<u32> {
            v["vec_bits"]
                .as_array()
                .map(|a| a.iter().map(|x| x.as_u64().unwrap_or(0) as u32).collect())
                .unwrap_or_default()
        };
        Some(match v["op"].as_str()? {
            "add" => Action::Add { index, id, vec: vec() },
            "append" => Action::Append { index, id, vec: vec() },
            "del" => Action::Del { index, id },
            "clear" => Action::Clear { index },
            "build" => Action::Build {
                index,
                opts: BuildOpts {
                    n_trees: v["n_trees"].as_u64().map(|x| x as usize),
                    split_after: v["split_after"].as_u64().map(|x| x as usize),
                    memory: v["memory"].as_u64().map(|x| x as usize),
                    seed: v["seed"].as_u64().unwrap_or(0),
                    cancel_at: v["cancel_at"].as_u64(),
                },
            },
            "change_metric" => {
                Action::ChangeMetric { index, to: Metric::from_short(v["to"].as_str()?)? }
            }
            "commit" => Action::Commit,
            "abort" => Action::Abort,
            _ => return None,
        })
    }
}

pub fn show_vec(bits: &[u32]) -> String {
    let f: Vec<String> = bits.iter().take(8).map(|b| format!("{}", f32::from_bits(*b))).collect();
    if bits.len() > 8 {
        format!("[{}, … ×{}]", f.join(", "), bits.len())
    } else {
        format!("[{}]", f.join(", "))
    }
}

#[derive(Clone, Debug, PartialEq)]
pub enum ErrKind {
    InvalidVecDimension { expected: usize, received: usize },
    InvalidItemAppend,
    BuildCancelled,
    MissingMetadata(u16),
    NeedBuild(u16),
    UnmatchingDistance { expected: String, received: String },
    MissingKey(String),
    DatabaseFull,
    MapFull,
    HeedIo(String),
    Heed(String),
    Io(String),
    Other(String),
}

impl ErrKind {
    pub fn of(e: &arroy::Error) -> ErrKind {
        use arroy::Error as E;
        match e {
            E::InvalidVecDimension { expected, received } => {
                ErrKind::InvalidVecDimension { expected: *expected, received: *received }
            }
            E::InvalidItemAppend => ErrKind::InvalidItemAppend,
            E::BuildCancelled => ErrKind::BuildCancelled,
            E::MissingMetadata(i) => ErrKind::MissingMetadata(*i),
            E::NeedBuild(i) => ErrKind::NeedBuild(*i),
            E::UnmatchingDistance { expected, received } => ErrKind::UnmatchingDistance {
                expected: expected.clone(),
                received: received.to_string(),
            },
            E::MissingKey { .. } => ErrKind::MissingKey(e.to_string()),
            E::DatabaseFull => ErrKind::DatabaseFull,
            E::Heed(heed::Error::Mdb(heed::MdbError::MapFull)) => ErrKind::MapFull,
            E::Heed(heed::Error::Io(io)) => ErrKind::HeedIo(format!("{:?}", io.kind())),
            E::Heed(h) => ErrKind::Heed(h.to_string()),
            E::Io(io) => ErrKind::Io(format!("{:?}", io.kind())),
            other => ErrKind::Other(other.to_string()),
        }
    }

    pub fn tag(&self) -> String {
        match self {
            ErrKind::InvalidVecDimension { .. } => "InvalidVecDimension".into(),
            ErrKind::InvalidItemAppend => "InvalidItemAppend".into(),
            ErrKind::BuildCancelled => "BuildCancelled".into(),
            ErrKind::MissingMetadata(_) => "MissingMetadata".into(),
            ErrKind::NeedBuild(_) => "NeedBuild".into(),
            ErrKind::UnmatchingDistance { .. } => "UnmatchingDistance".into(),
            ErrKind::MissingKey(_) => "MissingKey".into(),
            ErrKind::DatabaseFull => "DatabaseFull".into(),
            ErrKind::MapFull => "MapFull".into(),
            ErrKind::HeedIo(_) => "Heed(Io)".into(),
            ErrKind::Heed(_) => "Heed".into(),
            ErrKind::Io(_) => "Io".into(),
            ErrKind::Other(_) => "Other".into(),
        }
    }
}

#[derive(Clone, Debug)]
pub enum Outcome {
    Unit,
    Bool(bool),
    Err(ErrKind),
    Panic(Panicked),
}

impl Outcome {
    pub fn is_ok(&self) -> bool {
        matches!(self, Outcome::Unit | Outcome::Bool(_))
    }
    pub fn describe(&self) -> String {
        match self {
            Outcome::Unit => "Ok(())".into(),
            Outcome::Bool(b) => format!("Ok({b})"),
            Outcome::Err(e) => format!("Err({e:?})"),
            Outcome::Panic(p) => format!("panic at {}: {}", p.location, p.message),
        }
    }
}

/// Counters observed during a build through the callbacks.
#[derive(Default, Debug, Clone, Copy)]
pub struct BuildTrace {
    pub cancel_polls: u64,
    pub progress_calls: u64,
    /// polls made after the callback first answered true
    pub polls_after_true: u64,
}

/// Which metric and dimension each index currently has.
pub type IndexTypes = BTreeMap<u16, (Metric, usize)>;

/// Runs one build with the given options on index `index`.
pub fn run_build<D: arroy::Distance>(
    db: RawDb,
    wtxn: &mut RwTxn,
    index: u16,
    dim: usize,
    opts: &BuildOpts,
    tmpdir: Option<&std::path::Path>,
    poll_horizon: Option<u64>,
) -> (Result<(), arroy::Error>, BuildTrace) {
    let mut writer = arroy::Writer::<D>::new(arroy_db::<D>(db), index, dim);
    if let Some(t) = tmpdir {
        writer.set_tmpdir(t);
    }
    let polls = AtomicU64::new(0);
    let after_true = AtomicU64::new(0);
    let progress = AtomicU64::new(0);
    let cancel_at = opts.cancel_at;
    let mut rng = StdRng::seed_from_u64(opts.seed);
    let res = {
        let mut b = writer.builder(&mut rng);
        if let Some(n) = opts.n_trees {
            b.n_trees(n);
        }
        if let Some(s) = opts.split_after {
            b.split_after(s);
        }
        if let Some(m) = opts.memory {
            b.available_memory(m);
        }
        b.cancel(|| {
            let n = polls.fetch_add(1, Ordering::Relaxed);
            crate::explore::tick();
            if let Some(h) = poll_horizon {
                if n >= h {
                    return true;
                }
            }
            match cancel_at {
                Some(at) if n >= at => {
                    if n > at {
                        after_true.fetch_add(1, Ordering::Relaxed);
                    }
                    true
                }
                _ => false,
            }
        });
        b.progress(|_p| {
            progress.fetch_add(1, Ordering::Relaxed);
        });
        b.build(wtxn)
    };
    (
        res,
        BuildTrace {
            cancel_polls: polls.load(Ordering::Relaxed),
            progress_calls: progress.load(Ordering::Relaxed),
            polls_after_true: after_true.load(Ordering::Relaxed),
        },
    )
}

/// Executes one (non-transactional) action on the real API inside `wtxn`.
/// `types` is updated by `ChangeMetric`.
pub fn exec(
    db: RawDb,
    wtxn: &mut RwTxn,
    types: &mut IndexTypes,
    action: &Action,
) -> (Outcome, Option<BuildTrace>) {
    let index = action.index().expect("transaction actions are executed by the caller");
    let (metric, dim) = *types.get(&index).expect("index without a declared type");
    let mut trace = None;
    let r = catch(|| -> Result<Outcome, arroy::Error> {
        with_metric!(metric, D => {
            let writer = arroy::Writer::<D>::new(arroy_db::<D>(db), index, dim);
            match action {
                Action::Add { id, vec, .. } => {
                    writer.add_item(wtxn, *id, &floats_of(vec))?;
                    Ok(Outcome::Unit)
                }
                Action::Append { id, vec, .. } => {
                    writer.append_item(wtxn, *id, &floats_of(vec))?;
                    Ok(Outcome::Unit)
                }
                Action::Del { id, .. } => Ok(Outcome::Bool(writer.del_item(wtxn, *id)?)),
                Action::Clear { .. } => {
                    writer.clear(wtxn)?;
                    Ok(Outcome::Unit)
                }
                Action::Build { opts, .. } => {
                    let (res, t) = run_build::<D>(db, wtxn, index, dim, opts, None, None);
                    trace = Some(t);
                    res?;
                    Ok(Outcome::Unit)
                }
                Action::ChangeMetric { to, .. } => {
                    with_metric!(*to, ND => {
                        let _w: arroy::Writer<ND> = writer.prepare_changing_distance::<ND>(wtxn)?;
                    });
                    Ok(Outcome::Unit)
                }
                Action::Commit | Action::Abort => unreachable!(),
            }
        })
    });
    let outcome = match r {
        Ok(Ok(o)) => o,
        Ok(Err(e)) => Outcome::Err(ErrKind::of(&e)),
        Err(p) => Outcome::Panic(p),
    };
    if let (Action::ChangeMetric { to, .. }, true) = (action, outcome.is_ok()) {
        types.insert(index, (*to, dim));
    }
    (outcome, trace)
}

// ------------------------------------------------------------------------------------------
// reference model

#[derive(Clone, Debug, PartialEq, Eq, Hash)]
pub struct IndexModel {
    pub metric: Metric,
    pub dim: usize,
    /// id -> f32 bit patterns as last written
    pub items: BTreeMap<u32, Vec<u32>>,
    /// metric the index was last successfully built with, if the forest still exists
    pub built: Option<Metric>,
    /// an item was added / overwritten / really deleted since the last successful build
    pub stale: bool,
}

impl IndexModel {
    pub fn new(metric: Metric, dim: usize) -> IndexModel {
        IndexModel { metric, dim, items: BTreeMap::new(), built: None, stale: false }
    }

    /// Vectors as the API must return them (BQ: +-1 by sign bit).
    pub fn api_items(&self) -> BTreeMap<u32, Vec<u32>> {
        self.items.iter().map(|(k, v)| (*k, as_representable(self.metric, v))).collect()
    }
}

pub fn as_representable(metric: Metric, v: &[u32]) -> Vec<u32> {
    if metric.is_bq() {
        v.iter().map(|b| if b >> 31 == 0 { 1.0f32.to_bits() } else { (-1.0f32).to_bits() }).collect()
    } else {
        v.to_vec()
    }
}

#[derive(Clone, Debug, PartialEq, Eq, Hash, Default)]
pub struct Model {
    pub indexes: BTreeMap<u16, IndexModel>,
}

impl Model {
    pub fn with(indexes: &[(u16, Metric, usize)]) -> Model {
        let mut m = Model::default();
        for (i, metric, dim) in indexes {
            m.indexes.insert(*i, IndexModel::new(*metric, *dim));
        }
        m
    }

    pub fn types(&self) -> IndexTypes {
        self.indexes.iter().map(|(k, v)| (*k, (v.metric, v.dim))).collect()
    }

    /// Applies an action that the implementation reported as successful.
    /// Implementation-only failures are not modelled: the caller compares outcomes first.
    pub fn apply_ok(&mut self, action: &Action) {
        match action {
            Action::Add { index, id, vec } | Action::Append { index, id, vec } => {
                let ix = self.indexes.get_mut(index).unwrap();
                ix.items.insert(*id, vec.clone());
                ix.stale = true;
            }
            Action::Del { index, id } => {
                let ix = self.indexes.get_mut(index).unwrap();
                if ix.items.remove(id).is_some() {
                    ix.stale = true;
                }
            }
            Action::Clear { index } => {
                let ix = self.indexes.get_mut(index).unwrap();
                ix.items.clear();
                ix.built = None;
                ix.stale = false;
            }
            Action::Build { index, .. } => {
                let ix = self.indexes.get_mut(index).unwrap();
                ix.built = Some(ix.metric);
                ix.stale = false;
            }
            Action::ChangeMetric { index, to } => {
                let ix = self.indexes.get_mut(index).unwrap();
                if ix.metric != *to {
                    // items are kept "as representable" under the source metric
                    let src = ix.metric;
                    for v in ix.items.values_mut() {
                        *v = as_representable(src, v);
                    }
                    ix.metric = *to;
                    ix.built = None;
                    ix.stale = false;
                }
            }
            Action::Commit | Action::Abort => {}
        }
    }

    pub fn hash_bytes(&self) -> Vec<u8> {
        let mut out = Vec::new();
        for (i, ix) in &self.indexes {
            out.extend_from_slice(&i.to_le_bytes());
            out.push(ix.metric as u8);
            out.extend_from_slice(&(ix.dim as u32).to_le_bytes());
            out.push(ix.built.map_or(255, |m| m as u8));
            out.push(ix.stale as u8);
            out.extend_from_slice(&(ix.items.len() as u32).to_le_bytes());
            for (id, v) in &ix.items {
                out.extend_from_slice(&id.to_le_bytes());
                for b in v {
                    out.extend_from_slice(&b.to_le_bytes());
                }
            }
        }
        out
    }
}
