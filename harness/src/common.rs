//! Shared plumbing: metrics, scratch LMDB environments, raw dumps, panic capture,
//! evidence files, known findings and violation reporting.

use std::cell::RefCell;
use std::collections::BTreeMap;
use std::path::{Path, PathBuf};
use std::sync::atomic::{AtomicUsize, Ordering};
use std::sync::Mutex;
use std::time::Instant;

use heed::types::Bytes;
use heed::{EnvOpenOptions, PutFlags, RoTxn, RwTxn};

/// Every scratch environment is opened with MDB_NOTLS: read transactions are tied to their
/// `RoTxn` object, not to thread-local storage, so no LMDB thread-exit destructor can run
/// against an environment that has been closed meanwhile.
pub type Env = heed::Env<heed::WithoutTls>;
use serde_json::{json, Map, Value};

pub type RawDb = heed::Database<Bytes, Bytes>;
pub type Kv = Vec<(Vec<u8>, Vec<u8>)>;

pub fn verif_root() -> PathBuf {
    PathBuf::from(std::env::var("VERIF_ROOT").unwrap_or_else(|_| "/verif".to_string()))
}

// ------------------------------------------------------------------------------------------
// metrics

#[derive(Copy, Clone, Debug, PartialEq, Eq, Hash, PartialOrd, Ord)]
pub enum Metric {
    Euclidean,
    Manhattan,
    Cosine,
    DotProduct,
    BqEuclidean,
    BqCosine,
    BqManhattan,
}

pub const M7: [Metric; 7] = [
    Metric::Euclidean,
    Metric::Manhattan,
    Metric::Cosine,
    Metric::DotProduct,
    Metric::BqEuclidean,
    Metric::BqCosine,
    Metric::BqManhattan,
];

impl Metric {
    /// The name stored in the metadata record (Appendix A; written here independently of arroy).
    pub fn disk_name(self) -> &'static str {
        match self {
            Metric::Euclidean => "euclidean",
            Metric::Manhattan => "manhattan",
            Metric::Cosine => "cosine",
            Metric::DotProduct => "dot-product",
            Metric::BqEuclidean => "binary quantized euclidean",
            Metric::BqCosine => "binary quantized cosine",
            Metric::BqManhattan => "binary quantized manhattan",
        }
    }
    pub fn short(self) -> &'static str {
        match self {
            Metric::Euclidean => "euclidean",
            Metric::Manhattan => "manhattan",
            Metric::Cosine => "cosine",
            Metric::DotProduct => "dot",
            Metric::BqEuclidean => "bq-euclidean",
            Metric::BqCosine => "bq-cosine",
            Metric::BqManhattan => "bq-manhattan",
        }
    }
    pub fn from_short(s: &str) -> Option<Metric> {
        M7.iter().copied().find(|m| m.short() == s)
    }
    pub fn is_bq(self) -> bool {
        matches!(self, Metric::BqEuclidean | Metric::BqCosine | Metric::BqManhattan)
    }
    /// Size of the per-leaf header (Appendix A).
    pub fn header_size(self) -> usize {
        match self {
            Metric::DotProduct => 8,
            _ => 4,
        }
    }
    pub fn default_oversampling(self) -> usize {
        if self.is_bq() {
            3
        } else {
            1
        }
    }
}

/// Runs `$body` with `$D` bound to the arroy distance type of `$m`.
#[macro_export]
macro_rules! with_metric {
    ($m:expr, $D:ident => $body:expr) => {
        match $m {
            $crate::common::Metric::Euclidean => {
                type $D = arroy::distances::Euclidean;
                $body
            }
            $crate::common::Metric::Manhattan => {
                type $D = arroy::distances::Manhattan;
                $body
            }
            $crate::common::Metric::Cosine => {
                type $D = arroy::distances::Cosine;
                $body
            }
            $crate::common::Metric::DotProduct => {
                type $D = arroy::distances::DotProduct;
                $body
            }
            $crate::common::Metric::BqEuclidean => {
                type $D = arroy::distances::BinaryQuantizedEuclidean;
                $body
            }
            $crate::common::Metric::BqCosine => {
                type $D = arroy::distances::BinaryQuantizedCosine;
                $body
            }
            $crate::common::Metric::BqManhattan => {
                type $D = arroy::distances::BinaryQuantizedManhattan;
                $body
            }
        }
    };
}

pub fn arroy_db<D: arroy::Distance>(db: RawDb) -> arroy::Database<D> {
    db.remap_types::<arroy::internals::KeyCodec, arroy::internals::NodeCodec<D>>()
}

// ------------------------------------------------------------------------------------------
// scratch environments

static SCRATCH_COUNTER: AtomicUsize = AtomicUsize::new(0);

pub fn scratch_root() -> PathBuf {
    let shm = Path::new("/dev/shm");
    let base = if shm.is_dir() && std::fs::create_dir_all(shm.join("arroy-verif")).is_ok() {
        shm.join("arroy-verif")
    } else {
        let p = verif_root().join("target").join("scratch");
        std::fs::create_dir_all(&p).expect("cannot create scratch root");
        p
    };
    base
}

/// Removes scratch directories left behind by processes that no longer exist.
pub fn sweep_stale_scratch() {
    let root = scratch_root();
    if let Ok(rd) = std::fs::read_dir(&root) {
        for e in rd.flatten() {
            let name = e.file_name().to_string_lossy().to_string();
            if let Some(pid) = name.split('-').next().and_then(|p| p.parse::<u32>().ok()) {
                if pid != std::process::id() && !Path::new(&format!("/proc/{pid}")).exists() {
                    let _ = std::fs::remove_dir_all(e.path());
                }
            }
        }
    }
}

pub fn fresh_scratch_dir(tag: &str) -> PathBuf {
    let n = SCRATCH_COUNTER.fetch_add(1, Ordering::Relaxed);
    let dir = scratch_root().join(format!("{}-{}-{}", std::process::id(), tag, n));
    let _ = std::fs::remove_dir_all(&dir);
    std::fs::create_dir_all(&dir).expect("cannot create scratch dir");
    dir
}

/// One private LMDB environment with the unnamed database opened as raw bytes.
pub struct Scratch {
    pub dir: PathBuf,
    pub env: Env,
    pub db: RawDb,
    keep: bool,
}

impl Scratch {
    pub fn new(tag: &str) -> Scratch {
        Self::with_map_size(tag, 256 << 20)
    }

    pub fn with_map_size(tag: &str, map_size: usize) -> Scratch {
        let dir = fresh_scratch_dir(tag);
        Self::open_dir(dir, map_size, false).expect("cannot open scratch env")
    }

    pub fn open_dir(dir: PathBuf, map_size: usize, keep: bool) -> Result<Scratch, heed::Error> {
        let env =
            unsafe { EnvOpenOptions::new().read_txn_without_tls().map_size(map_size).max_readers(2048).open(&dir) }?;
        let mut wtxn = env.write_txn()?;
        let db: RawDb = env.create_database(&mut wtxn, None)?;
        wtxn.commit()?;
        Ok(Scratch { dir, env, db, keep })
    }

    pub fn dump(&self, rtxn: &RoTxn) -> Kv {
        dump(self.db, rtxn)
    }

    /// Replaces the whole content of the database by `kv` (sorted by key).
    pub fn load(&self, wtxn: &mut RwTxn, kv: &Kv) {
        self.db.clear(wtxn).expect("clear");
        for (k, v) in kv {
            self.db.put_with_flags(wtxn, PutFlags::APPEND, k, v).expect("load put");
        }
    }
}

impl Drop for Scratch {
    fn drop(&mut self) {
        if !self.keep {
            let _ = std::fs::remove_dir_all(&self.dir);
        }
    }
}

pub fn dump(db: RawDb, rtxn: &RoTxn) -> Kv {
    let mut out = Vec::new();
    for r in db.iter(rtxn).expect("iter") {
        let (k, v) = r.expect("iter item");
        out.push((k.to_vec(), v.to_vec()));
    }
    out
}

pub fn sub_dump(kv: &Kv, index: u16) -> Kv {
    let p = index.to_be_bytes();
    kv.iter().filter(|(k, _)| k.len() >= 2 && k[0..2] == p).cloned().collect()
}

pub fn hash128(parts: &[&[u8]]) -> u128 {
    // FNV-1a 128 over length-prefixed parts: deterministic across runs and platforms.
    const PRIME: u128 = 0x0000000001000000000000000000013B;
    let mut h: u128 = 0x6c62272e07bb014262b821756295c58d;
    let mut eat = |b: &[u8]| {
        for &x in b {
            h ^= x as u128;
            h = h.wrapping_mul(PRIME);
        }
    };
    for p in parts {
        eat(&(p.len() as u64).to_le_bytes());
        eat(p);
    }
    h
}

pub fn kv_hash(kv: &Kv) -> u128 {
    const PRIME: u128 = 0x0000000001000000000000000000013B;
    let mut h: u128 = 0x6c62272e07bb014262b821756295c58d;
    for (k, v) in kv {
        for part in [&k[..], &v[..]] {
            for &x in &(part.len() as u32).to_le_bytes() {
                h ^= x as u128;
                h = h.wrapping_mul(PRIME);
            }
            for &x in part {
                h ^= x as u128;
                h = h.wrapping_mul(PRIME);
            }
        }
    }
    h
}

// ------------------------------------------------------------------------------------------
// panic capture

thread_local! {
    static LAST_PANIC: RefCell<Option<(String, String)>> = const { RefCell::new(None) };
}
static ANY_PANIC: Mutex<Option<(String, String)>> = Mutex::new(None);

#[derive(Debug, Clone)]
pub struct Panicked {
    /// `file:line` relative to the arroy repository when the panic came from there.
    pub location: String,
    pub message: String,
}

impl Panicked {
    /// Stable part of the location: the file without the line number.
    pub fn site(&self) -> String {
        let file = self.location.rsplit_once(':').map(|x| x.0).unwrap_or(&self.location);
        let msg: String = self.message.chars().take(48).collect();
        format!("panic@{file}[{msg}]")
    }
}

pub fn install_panic_hook() {
    let show = std::env::var("VERIF_SHOW_PANICS").is_ok();
    let default = std::panic::take_hook();
    std::panic::set_hook(Box::new(move |info| {
        let loc = info
            .location()
            .map(|l| {
                let f = l.file();
                let repo = std::env::var("VERIF_REPO").unwrap_or_else(|_| "/repo".to_string());
                let f = f.strip_prefix(&format!("{repo}/")).or_else(|| f.strip_prefix("/repo/")).unwrap_or(f);
                format!("{}:{}", f, l.line())
            })
            .unwrap_or_else(|| "?".into());
        let msg = if let Some(s) = info.payload().downcast_ref::<&str>() {
            s.to_string()
        } else if let Some(s) = info.payload().downcast_ref::<String>() {
            s.clone()
        } else {
            "<non-string panic>".into()
        };
        let msg = msg.replace('\n', " ");
        LAST_PANIC.with(|p| *p.borrow_mut() = Some((loc.clone(), msg.clone())));
        *ANY_PANIC.lock().unwrap_or_else(|e| e.into_inner()) = Some((loc, msg));
        if show {
            default(info);
        }
    }));
}

/// Runs `f`, turning a panic of the subject into a value.
pub fn catch<T>(f: impl FnOnce() -> T) -> Result<T, Panicked> {
    LAST_PANIC.with(|p| *p.borrow_mut() = None);
    match std::panic::catch_unwind(std::panic::AssertUnwindSafe(f)) {
        Ok(v) => Ok(v),
        Err(payload) => {
            let tls = LAST_PANIC.with(|p| p.borrow_mut().take());
            let (location, message) = tls
                .or_else(|| ANY_PANIC.lock().unwrap_or_else(|e| e.into_inner()).clone())
                .unwrap_or_else(|| {
                    let msg = if let Some(s) = payload.downcast_ref::<&str>() {
                        s.to_string()
                    } else if let Some(s) = payload.downcast_ref::<String>() {
                        s.clone()
                    } else {
                        "<panic>".into()
                    };
                    ("?".into(), msg)
                });
            Err(Panicked { location, message })
        }
    }
}

// ------------------------------------------------------------------------------------------
// tiers, seeds

#[derive(Copy, Clone, Debug, PartialEq, Eq)]
pub enum Tier {
    Quick,
    Thorough,
}

impl Tier {
    pub fn name(self) -> &'static str {
        match self {
            Tier::Quick => "quick",
            Tier::Thorough => "thorough",
        }
    }
}

pub fn verif_seed() -> u64 {
    std::env::var("VERIF_SEED").ok().and_then(|s| s.parse::<i64>().ok()).unwrap_or(0) as u64
}

pub fn n_workers() -> usize {
    std::env::var("VERIF_WORKERS")
        .ok()
        .and_then(|s| s.parse().ok())
        .unwrap_or_else(|| std::thread::available_parallelism().map(|n| n.get()).unwrap_or(8))
}

// ------------------------------------------------------------------------------------------
// violations, known findings, evidence

#[derive(Debug, Clone)]
pub struct Violation {
    /// clause id + discriminating facts; identifies a finding in known_findings.jsonl
    pub signature: String,
    /// human readable: expected vs observed
    pub what: String,
    /// everything needed to replay (engine, config, actions, ...)
    pub replay: Value,
}

impl Violation {
    pub fn new(signature: impl Into<String>, what: impl Into<String>) -> Violation {
        Violation { signature: signature.into(), what: what.into(), replay: Value::Null }
    }
}

#[derive(Debug, Clone)]
pub struct KnownFinding {
    pub status: String,
    pub property: String,
    pub signature: String,
    pub what: String,
}

pub fn load_known_findings() -> Vec<KnownFinding> {
    let path = verif_root().join("known_findings.jsonl");
    let mut out = Vec::new();
    if let Ok(text) = std::fs::read_to_string(path) {
        for line in text.lines() {
            let line = line.trim();
            if line.is_empty() || line.starts_with('#') {
                continue;
            }
            if let Ok(v) = serde_json::from_str::<Value>(line) {
                out.push(KnownFinding {
                    status: v["status"].as_str().unwrap_or("").to_string(),
                    property: v["property"].as_str().unwrap_or("").to_string(),
                    signature: v["signature"].as_str().unwrap_or("").to_string(),
                    what: v["what"].as_str().unwrap_or("").to_string(),
                });
            }
        }
    }
    out
}

/// Collects the outcome of one check run and turns it into the interface lines,
/// the evidence file and the exit code.
pub struct Report {
    pub property: String,
    pub tier: Tier,
    pub level: &'static str,
    pub started: Instant,
    pub coverage: Map<String, Value>,
    pub assumptions: Vec<String>,
    /// first violation per signature
    pub violations: BTreeMap<String, Violation>,
    pub violation_count: usize,
    pub machinery_errors: Vec<String>,
}

impl Report {
    pub fn new(property: &str, tier: Tier, level: &'static str) -> Report {
        Report {
            property: property.to_string(),
            tier,
            level,
            started: Instant::now(),
            coverage: Map::new(),
            assumptions: Vec::new(),
            violations: BTreeMap::new(),
            violation_count: 0,
            machinery_errors: Vec::new(),
        }
    }

    pub fn cov(&mut self, key: &str, v: impl Into<Value>) {
        self.coverage.insert(key.to_string(), v.into());
    }

    pub fn cov_add(&mut self, key: &str, n: u64) {
        let cur = self.coverage.get(key).and_then(|v| v.as_u64()).unwrap_or(0);
        self.coverage.insert(key.to_string(), Value::from(cur + n));
    }

    pub fn sample(&mut self, v: Value) {
        let arr = self.coverage.entry("samples".to_string()).or_insert_with(|| json!([]));
        if let Some(a) = arr.as_array_mut() {
            if a.len() < 12 {
                a.push(v);
            }
        }
    }

    pub fn assume(&mut self, s: &str) {
        if !self.assumptions.iter().any(|a| a == s) {
            self.assumptions.push(s.to_string());
        }
    }

    pub fn add_violation(&mut self, v: Violation) {
        self.violation_count += 1;
        self.violations.entry(v.signature.clone()).or_insert(v);
    }

    pub fn add_violations(&mut self, vs: Vec<Violation>) {
        for v in vs {
            self.add_violation(v);
        }
    }

    pub fn machinery_error(&mut self, s: String) {
        self.machinery_errors.push(s);
    }

    /// Writes the evidence, prints the interface lines and returns the exit code.
    pub fn finish(mut self) -> i32 {
        let known = load_known_findings();
        let mut new_violations = Vec::new();
        let mut known_lines = Vec::new();
        for (sig, v) in &self.violations {
            let hit = known
                .iter()
                .find(|k| k.status == "open" && k.property == self.property && &k.signature == sig);
            match hit {
                Some(k) => known_lines.push(format!(
                    "KNOWN-FINDING: property={} {} [{}]",
                    self.property, k.what, sig
                )),
                None => new_violations.push(v.clone()),
            }
        }
        let wall = self.started.elapsed().as_secs_f64();
        self.coverage.entry("samples".to_string()).or_insert_with(|| json!([]));
        let sigs: Vec<Value> = self.violations.keys().map(|s| Value::from(s.clone())).collect();
        self.coverage.insert("violation_signatures".into(), Value::from(sigs));
        self.coverage.insert("known_findings_hit".into(), Value::from(known_lines.len()));
        let evidence = json!({
            "property_id": self.property,
            "tier": self.tier.name(),
            "seed": verif_seed(),
            "level": self.level,
            "coverage": Value::Object(self.coverage.clone()),
            "assumptions": self.assumptions,
            "wall_s": (wall * 1000.0).round() / 1000.0,
            "violations": new_violations.len(),
        });
        let dir = std::env::var("VERIF_EVIDENCE_DIR").map(PathBuf::from).unwrap_or_else(|_| verif_root().join("evidence"));
        let _ = std::fs::create_dir_all(&dir);
        let path = dir.join(format!("{}.json", self.property));
        if let Err(e) = std::fs::write(&path, serde_json::to_string_pretty(&evidence).unwrap()) {
            self.machinery_errors.push(format!("cannot write evidence {path:?}: {e}"));
        }
        for l in &known_lines {
            println!("{l}");
        }
        if !self.machinery_errors.is_empty() {
            for e in &self.machinery_errors {
                println!("MACHINERY-ERROR property={} {}", self.property, e);
            }
            return 2;
        }
        if new_violations.is_empty() {
            println!(
                "OK property={} tier={} wall_s={:.1} {}",
                self.property,
                self.tier.name(),
                wall,
                summary_line(&self.coverage)
            );
            return 0;
        }
        let rdir = std::env::var("VERIF_REPLAYS_DIR").map(PathBuf::from).unwrap_or_else(|_| verif_root().join("replays"));
        let _ = std::fs::create_dir_all(&rdir);
        for v in &new_violations {
            let h = hash128(&[v.signature.as_bytes()]) as u32;
            let path = rdir.join(format!("{}-{:08x}.json", self.property, h));
            let mut replay = v.replay.clone();
            if !replay.is_object() {
                replay = json!({});
            }
            let obj = replay.as_object_mut().unwrap();
            obj.insert("property".into(), Value::from(self.property.clone()));
            obj.insert("signature".into(), Value::from(v.signature.clone()));
            obj.insert("what".into(), Value::from(v.what.clone()));
            let _ = std::fs::write(&path, serde_json::to_string_pretty(&replay).unwrap());
            println!("DETAIL property={} signature={} :: {}", self.property, v.signature, v.what);
            println!("VIOLATION property={} replay={}", self.property, path.display());
        }
        1
    }
}

fn summary_line(cov: &Map<String, Value>) -> String {
    let mut parts = Vec::new();
    for k in ["states", "transitions", "evaluations", "distinct_nontrivial", "exhaustive"] {
        if let Some(v) = cov.get(k) {
            parts.push(format!("{k}={v}"));
        }
    }
    parts.join(" ")
}

pub fn bits_of(v: &[f32]) -> Vec<u32> {
    v.iter().map(|x| x.to_bits()).collect()
}

pub fn floats_of(v: &[u32]) -> Vec<f32> {
    v.iter().map(|x| f32::from_bits(*x)).collect()
}

// ------------------------------------------------------------------------------------------
// minimal binary encoding (states travel from forked workers to the coordinator)

#[derive(Default)]
pub struct Enc(pub Vec<u8>);

impl Enc {
    pub fn u8(&mut self, v: u8) {
        self.0.push(v);
    }
    pub fn u32(&mut self, v: u32) {
        self.0.extend_from_slice(&v.to_le_bytes());
    }
    pub fn u64(&mut self, v: u64) {
        self.0.extend_from_slice(&v.to_le_bytes());
    }
    pub fn u128(&mut self, v: u128) {
        self.0.extend_from_slice(&v.to_le_bytes());
    }
    pub fn bytes(&mut self, b: &[u8]) {
        self.u32(b.len() as u32);
        self.0.extend_from_slice(b);
    }
    pub fn kv(&mut self, kv: &Kv) {
        self.u32(kv.len() as u32);
        for (k, v) in kv {
            self.bytes(k);
            self.bytes(v);
        }
    }
    pub fn u32s(&mut self, v: &[u32]) {
        self.u32(v.len() as u32);
        for x in v {
            self.u32(*x);
        }
    }
}

pub struct Dec<'a> {
    pub b: &'a [u8],
    pub p: usize,
}

impl<'a> Dec<'a> {
    pub fn new(b: &'a [u8]) -> Dec<'a> {
        Dec { b, p: 0 }
    }
    pub fn done(&self) -> bool {
        self.p >= self.b.len()
    }
    pub fn u8(&mut self) -> u8 {
        let v = self.b[self.p];
        self.p += 1;
        v
    }
    pub fn u32(&mut self) -> u32 {
        let v = u32::from_le_bytes(self.b[self.p..self.p + 4].try_into().unwrap());
        self.p += 4;
        v
    }
    pub fn u64(&mut self) -> u64 {
        let v = u64::from_le_bytes(self.b[self.p..self.p + 8].try_into().unwrap());
        self.p += 8;
        v
    }
    pub fn u128(&mut self) -> u128 {
        let v = u128::from_le_bytes(self.b[self.p..self.p + 16].try_into().unwrap());
        self.p += 16;
        v
    }
    pub fn bytes(&mut self) -> &'a [u8] {
        let n = self.u32() as usize;
        let v = &self.b[self.p..self.p + n];
        self.p += n;
        v
    }
    pub fn kv(&mut self) -> Kv {
        let n = self.u32() as usize;
        (0..n).map(|_| (self.bytes().to_vec(), self.bytes().to_vec())).collect()
    }
    pub fn u32s(&mut self) -> Vec<u32> {
        let n = self.u32() as usize;
        (0..n).map(|_| self.u32()).collect()
    }
}
