//! Golden-fixture generator for C16(c). Built once against a worktree of the pinned
//! reference commit (a7b9462) — see /verif/fixtures/README.md — and not part of the checks.
//! It uses the public API only and writes one JSON file per metric.

use std::num::NonZeroUsize;

use arroy::distances::*;
use arroy::{Database, Distance, Reader, Writer};
use heed::types::Bytes;
use heed::EnvOpenOptions;
use rand::rngs::StdRng;
use rand::SeedableRng;
use serde_json::{json, Value};

const DIM: usize = 3;

thread_local! {
    /// every coordinate is multiplied by this factor (1.0 for the seven standard fixtures; the
    /// `cosine-small` fixture uses 3e-5 so that products of norms fall into (0, f32::EPSILON])
    static SCALE: std::cell::Cell<f32> = const { std::cell::Cell::new(1.0) };
}

fn vec_of(i: u32, salt: u32) -> Vec<f32> {
    let k = i.wrapping_mul(7).wrapping_add(salt);
    let mut v = vec![((k * 7) % 11) as f32 - 5.0, ((k * 3) % 7) as f32 - 3.0, ((k * 5) % 13) as f32 - 6.0];
    if v.iter().all(|x| *x == 0.0) {
        v[0] = 1.0;
    }
    let scale = SCALE.with(|s| s.get());
    v.iter().map(|x| x * scale).collect()
}

fn hex(b: &[u8]) -> String {
    b.iter().map(|x| format!("{x:02x}")).collect()
}

fn gen<D: Distance>(name: &str, seed: u64, out_dir: &str) {
    let dir = tempfile::tempdir().unwrap();
    let env = unsafe { EnvOpenOptions::new().map_size(64 << 20).open(dir.path()) }.unwrap();
    let mut wtxn = env.write_txn().unwrap();
    let db: Database<D> = env.create_database(&mut wtxn, None).unwrap();
    let mut items: Vec<Value> = Vec::new();
    let mut model: Vec<Vec<(u32, Vec<f32>)>> = vec![Vec::new(); 3];

    // index 0: twelve items, two trees, buckets of two => splits, buckets, single-item children
    let w0 = Writer::<D>::new(db, 0, DIM);
    for id in [0u32, 1, 2, 3, 4, 5, 6, 7, 8, 9, 1000, u32::MAX] {
        let v = vec_of(id % 997, 1);
        w0.add_item(&mut wtxn, id, &v).unwrap();
        model[0].push((id, v));
    }
    let mut rng = StdRng::seed_from_u64(seed);
    w0.builder(&mut rng).n_trees(2).split_after(2).build(&mut wtxn).unwrap();

    // index 1: five items, automatic options
    let w1 = Writer::<D>::new(db, 1, DIM);
    for id in [10u32, 20, 30, 40, 50] {
        let v = vec_of(id, 3);
        w1.add_item(&mut wtxn, id, &v).unwrap();
        model[1].push((id, v));
    }
    let mut rng = StdRng::seed_from_u64(seed + 1);
    w1.builder(&mut rng).build(&mut wtxn).unwrap();

    // index 2: built, then one addition and one deletion left pending
    let w2 = Writer::<D>::new(db, 2, DIM);
    for id in [1u32, 2, 3, 4, 5, 6] {
        let v = vec_of(id, 5);
        w2.add_item(&mut wtxn, id, &v).unwrap();
        model[2].push((id, v));
    }
    let mut rng = StdRng::seed_from_u64(seed + 2);
    w2.builder(&mut rng).n_trees(2).split_after(2).build(&mut wtxn).unwrap();
    w2.add_item(&mut wtxn, 77, &vec_of(77, 5)).unwrap();
    model[2].push((77, vec_of(77, 5)));
    assert!(w2.del_item(&mut wtxn, 1).unwrap());
    model[2].retain(|(id, _)| *id != 1);
    wtxn.commit().unwrap();

    let rtxn = env.read_txn().unwrap();
    for (idx, m) in model.iter().enumerate() {
        items.push(json!({
            "index": idx,
            "items": m.iter().map(|(id, v)| json!({"id": id, "bits": v.iter().map(|x| x.to_bits()).collect::<Vec<_>>()})).collect::<Vec<_>>(),
        }));
    }
    // recorded queries on the two indexes that open
    let mut queries = Vec::new();
    for idx in [0u16, 1] {
        let reader = Reader::<D>::open(&rtxn, idx, db).unwrap();
        reader.assert_validity(&rtxn).unwrap();
        let stats = reader.stats(&rtxn).unwrap();
        eprintln!("{name} index {idx}: {stats:?}");
        for q in 0..8u32 {
            let v = vec_of(q * 13 + 2, 9);
            let mut qb = reader.nns(4);
            qb.search_k(NonZeroUsize::new(usize::MAX).unwrap());
            let res = qb.by_vector(&rtxn, &v).unwrap();
            queries.push(json!({
                "index": idx, "count": 4,
                "vector_bits": v.iter().map(|x| x.to_bits()).collect::<Vec<_>>(),
                "answers": res.iter().map(|(id, d)| json!([id, d.to_bits()])).collect::<Vec<_>>(),
            }));
        }
        for id in model[idx as usize].iter().map(|x| x.0).take(3) {
            let mut qb = reader.nns(3);
            qb.search_k(NonZeroUsize::new(usize::MAX).unwrap());
            let res = qb.by_item(&rtxn, id).unwrap().unwrap();
            queries.push(json!({
                "index": idx, "count": 3, "by_item": id,
                "answers": res.iter().map(|(id, d)| json!([id, d.to_bits()])).collect::<Vec<_>>(),
            }));
        }
    }
    assert!(Reader::<D>::open(&rtxn, 2, db).is_err());
    let raw: heed::Database<Bytes, Bytes> = db.remap_types();
    let kv: Vec<Value> = raw.iter(&rtxn).unwrap().map(|r| {
        let (k, v) = r.unwrap();
        json!([hex(k), hex(v)])
    }).collect();
    let out = json!({
        "written_by": "arroy a7b9462 (pinned reference commit), public API only",
        "metric": name,
        "dim": DIM,
        "seed": seed,
        "opens": [0, 1],
        "needs_build": [2],
        "models": items,
        "queries": queries,
        "kv": kv,
    });
    std::fs::write(format!("{out_dir}/{name}.json"), serde_json::to_string(&out).unwrap()).unwrap();
}

fn main() {
    let _ = rayon::ThreadPoolBuilder::new().num_threads(1).build_global();
    let args: Vec<String> = std::env::args().collect();
    let out_dir = &args[1];
    let seed: u64 = args.get(2).and_then(|s| s.parse().ok()).unwrap_or(42);
    gen::<Euclidean>("euclidean", seed, out_dir);
    gen::<Manhattan>("manhattan", seed, out_dir);
    gen::<Cosine>("cosine", seed, out_dir);
    gen::<DotProduct>("dot", seed, out_dir);
    gen::<BinaryQuantizedEuclidean>("bq-euclidean", seed, out_dir);
    gen::<BinaryQuantizedCosine>("bq-cosine", seed, out_dir);
    gen::<BinaryQuantizedManhattan>("bq-manhattan", seed, out_dir);
    // small magnitudes: the cosine distance of the reference treats norm products up to f32::EPSILON as vanishing
    SCALE.with(|s| s.set(3.0e-5));
    gen::<Cosine>("cosine-small", seed, out_dir);
}
